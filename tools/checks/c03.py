"""C03 - no datagram can make the receive path fail or over-read.

Stage G: tr_wire (shared with C02)
Stage P: props/C03.v (decode bounds / exact consumption / declared lengths; notify_total,
         notify_reaches_all, short_is_ignored, prefix_gate)
Stage C: (A) every shipped class: malformed encodings (truncation at every offset, corrupted length
         fields, random bytes) decoded by the real Serializer and by the wire model;
         (B) real overlays of every class multiplexed on one endpoint, fed byte strings through the
         production path Endpoint.notify_listeners, compared with model M03_recv event lists.
Oracle : no exception escapes notify_listeners; every selected listener is delivered to; a handler is
         entered only for a datagram with that overlay's prefix; an accepted decode ends inside the
         buffer and a consume_all decode ends exactly at its end; re-encoding an accepted canonical
         decode reproduces the consumed bytes (no truncated part).
"""
from __future__ import annotations

import asyncio
import json
import os

from tools.checks import c02
from tools.tr import tr_wire
from tools.vlib import coqrun, simnet, wire
from tools.vlib.coqrun import zl

IMPORTS_W = c02.IMPORTS
IMPORTS_R = ("From Coq Require Import ZArith List Bool.\n"
             "From IPV8V Require Import lib.PyErr lib.Bytes model.M03_recv.\n"
             "Import ListNotations.\nOpen Scope Z_scope.\n")


def overlay_classes():
    from ipv8.attestation.identity.community import IdentityCommunity
    from ipv8.attestation.wallet.community import AttestationCommunity
    from ipv8.dht.discovery import DHTDiscoveryCommunity
    from ipv8.messaging.anonymization.hidden_services import HiddenTunnelCommunity
    from ipv8.peerdiscovery.community import DiscoveryCommunity
    return [(DiscoveryCommunity, {}), (DHTDiscoveryCommunity, {}), (HiddenTunnelCommunity, {}),
            (AttestationCommunity, {"working_directory": ":memory:"}), (IdentityCommunity, {"working_directory": ":memory:"})]


class Node:
    def __init__(self, net, addr, classes):
        self.ep = net.endpoint(addr)
        self.overlays = [simnet.make_overlay(cls, self.ep, **kw) for cls, kw in classes]
        self.events = []
        self.index = {}     # listener object id -> index
        for ov in self.overlays:
            simnet.spy_handlers(ov, self.events, id(ov))
        # spy on every listener's on_packet (the "Delivered" event)
        seen = []
        for lst in [self.ep._listeners] + list(self.ep._prefix_map.values()):
            for l in lst:
                if all(l is not s for s in seen):
                    seen.append(l)
        # also every overlay (or the crypto endpoint fronting it) that SHOULD be listening, whatever the endpoint's tables say
        for ov in self.overlays:
            ce = getattr(ov, "crypto_endpoint", None)
            front = ce if (ce is not None and hasattr(ce, "on_packet") and all(ov is not s for s in seen)) else ov
            if all(front is not s for s in seen) and all(ov is not s for s in seen):
                seen.append(front)
        self.listeners = seen
        for i, l in enumerate(seen):
            self.index[id(l)] = i
            orig = l.on_packet

            def spy(packet, warn_unknown=True, _orig=orig, _i=i):
                self.events.append(("delivered", _i))
                return _orig(packet, warn_unknown)
            l.on_packet = spy

    def expected_listeners(self, data):
        """indices of the listeners that must see this datagram, computed from the overlays themselves (their prefixes),
        not from the endpoint's own tables: every listener fronting an overlay whose prefix the datagram carries, or - if no
        overlay has that prefix - the catch-all listeners"""
        out = []
        for ov in self.overlays:
            if data[:22] == ov.get_prefix():
                i = self.overlay_index(ov)
                if i is not None and i not in out:
                    out.append(i)
        return out

    def overlay_index(self, ov):
        """index of the listener that fronts this overlay (itself, or its crypto endpoint)"""
        if id(ov) in self.index:
            return self.index[id(ov)]
        ce = getattr(ov, "crypto_endpoint", None)
        return self.index.get(id(ce))

    def model_endpoint(self):
        """abstract the real listener tables into a model endpoint term"""
        from ipv8.messaging.anonymization.crypto import PythonCryptoEndpoint

        def comm(ov):
            ids = [m for m in range(256) if ov.decode_map[m] is not None]
            return "(mkComm %s [%s])" % (zl(ov.get_prefix()), "; ".join(map(str, ids)))

        def lis(l):
            i = self.index[id(l)]
            if isinstance(l, PythonCryptoEndpoint):
                if l.circuits or l.relays or l.exit_sockets:
                    raise wire.Unsupported("non-empty routing tables are not abstracted by this check")
                tc = l.tunnel_community
                return "(%d%%nat, LCrypto %s %s %d [])" % (i, comm(tc), "true" if tc is not None else "false", l.max_relay_early)
            return "(%d%%nat, LComm %s)" % (i, comm(l))
        ls = "[" + "; ".join(lis(l) for l in self.ep._listeners) + "]"
        pm = "[" + "; ".join("(%s, [%s])" % (zl(k), "; ".join(lis(l) for l in v)) for k, v in self.ep._prefix_map.items()) + "]"
        return "(mkEp %s %s %s)" % ("true" if self.ep.is_open() else "false", ls, pm)

    def feed(self, data, src=("9.9.9.9", 999)):
        """deliver one datagram through the production path; returns (escaped exception or None, events)"""
        del self.events[:]
        try:
            self.ep.inject(src, data)
            esc = None
        except Exception as e:   # noqa
            esc = type(e).__name__
        return esc, list(self.events)


def run(ctx):
    try:
        text = tr_wire.write()
    except Exception as e:
        ctx.broke("translator tr_wire aborted", repr(e))
        text = None
    ctx.proofs() if text is not None else None
    # extension: the receive path translated from the AST (gen/G03_recv.v), theorems in props/C03x.v
    from tools.checks import c03_recv_gen
    xtext = c03_recv_gen.translate(ctx) if text is not None else None
    if xtext is not None:
        ctx.proofs(part="C03x")
    ctx.coverage["trusted_base"] = [
        "Coq 8.16.1 kernel; no axioms",
        "wire model M02_wire (decoders) and receive-path model M03_recv, hand-written, tied by this run's correspondence",
        "handler bodies and cell cryptography are oracles (arbitrary functions) in the receive-path theorems",
        "hand model M03_recv only: relay tables are assumed paired there (relays_paired); the generated model M03_recv_gen "
        "(props/C03x.v) does not assume it - it is not an invariant of the code (fix a2da113)",
        "tools/tr/tr_recv.py: AST translation of notify_listeners / on_packet / process_cell / relay_cell / incoming_crypto / "
        "CellPayload.from_bin / the lazy_wrapper family into a state-plus-exception monad (fail closed); crypto_ok: decrypt "
        "fails only with ValueError or RuntimeError, encrypt only with ValueError (checked on every abstracted real node)",
    ]
    ctx.assumptions = ["bytes are 0..255", "routing tables of the fed nodes are empty (fresh nodes) in the correspondence part"]
    loop = asyncio.new_event_loop()
    asyncio.set_event_loop(loop)
    try:
        loop.run_until_complete(_run(ctx, text))
    finally:
        loop.close()
    c03_recv_gen.stage(ctx, text=xtext)      # creates its own event loop


async def _run(ctx, text):
    from ipv8.keyvault.crypto import default_eccrypto
    from ipv8.messaging.serialization import PackError
    r = ctx.rng("main")
    ser = wire.make_serializer()
    reg = wire.registry_for_harness(ctx, ser)
    keys = [default_eccrypto.generate_key("curve25519").pub().key_to_bin() for _ in range(2)]
    gen_class = c02.make_gen_class(reg, keys)
    classes = [c for c in tr_wire.shipped_classes() if c02.concrete(c)]

    # ------------------------------------------------------------------ A: decoders on malformed input
    cases = []
    kinds = {"ok": 0, "reject": 0}
    per = 4 if ctx.quick else 25
    for cls in classes:
        fmts = wire.class_fmts(cls, reg)
        fcoq = "[" + "; ".join(wire.fmt_coq(f) for f in fmts) + "]"
        sh = wire.shim(cls)
        canonical = not any(_noncanon(f) for f in fmts)
        for k in range(per):
            inst = gen_class(r, cls)
            try:
                bs = ser.pack_serializable(inst)
            except PackError:
                continue
            if len(bs) > 400:
                continue
            variants = []
            cuts = range(len(bs)) if len(bs) <= 60 or not ctx.quick else sorted(set(r.randrange(len(bs)) for _ in range(40)))
            for n in cuts:
                variants.append(("trunc", bs[:n]))
            for _ in range(6 if ctx.quick else 30):
                b = bytearray(bs)
                if b:
                    pos = r.randrange(len(b))
                    b[pos] = r.choice([0, 1, 255, (b[pos] + 1) % 256, (b[pos] - 1) % 256, r.randrange(256)])
                variants.append(("corrupt", bytes(b)))
            # length fields: a 16-bit big-endian field that claims exactly the rest of the buffer is made to claim 1..3 bytes
            # more (and a few arbitrary positions are made to claim slightly more than what follows them)
            exact = [pos for pos in range(len(bs) - 1) if int.from_bytes(bs[pos:pos + 2], "big") == len(bs) - pos - 2]
            for pos in exact[-4:] + [r.randrange(len(bs) - 1) for _ in range(2 if len(bs) > 1 else 0)]:
                for extra in (1, 2, 3):
                    variants.append(("overclaim", bs[:pos] + (len(bs) - pos - 2 + extra).to_bytes(2, "big") + bs[pos + 2:]))
            variants.append(("extend", bs + r.randbytes(r.choice([1, 2, 9]))))
            variants.append(("random", r.randbytes(r.choice([0, 1, 5, 30]))))
            for how, data in variants:
                off = r.choice([0, 0, 3])
                data = r.randbytes(off) + data
                # key validity oracle for node-list formats: log what the key vault is asked
                klog = []
                orig = default_eccrypto.key_from_public_bin

                def spy(k, _orig=orig):
                    try:
                        res = _orig(k)
                        klog.append(bytes(k))
                        return res
                    except Exception:
                        raise
                default_eccrypto.key_from_public_bin = spy
                try:
                    try:
                        raw, off2 = ser.unpack_serializable(sh, data, off)
                        ok = True
                    except Exception:   # noqa - any exception is a rejection
                        exp, ok, raw, off2 = "Raise PackError", False, None, None
                    if ok:
                        try:
                            exp = "Ok ([%s], %d%%nat)" % ("; ".join(wire.msg_vals_coq(fmts, raw)), off2)
                        except Exception as e:   # noqa - the harness cannot render this decoded value
                            ctx.broke("harness: decoded value of %s cannot be rendered for the model" % cls.__name__, repr(e))
                            exp = None
                finally:
                    default_eccrypto.key_from_public_bin = orig
                kinds["ok" if ok else "reject"] += 1
                kc = "[" + "; ".join(zl(k) for k in dict.fromkeys(klog)) + "]"
                meta = {"kind": "decode", "cls": cls.__module__ + "." + cls.__name__, "how": how, "data": data.hex(), "offset": off}
                if exp is not None:
                    cases.append(("(%s, %s, %s, %d%%nat)" % (kc, fcoq, zl(data), off), exp, meta))
                ctx.count(("dec", cls.__name__, data, off), nontrivial=len(data) > off)
                if ok:
                    if not (off <= off2 <= len(data)):
                        ctx.violation("decode-overread/%s" % cls.__name__,
                                      "%s decoded from %d bytes at offset %d reports end offset %d" % (cls.__name__, len(data), off, off2), meta)
                    else:
                        try:
                            again = ser.pack_serializable(c02._RawPacked(("nested", fmts, cls), raw))
                            if canonical and again != data[off:off2]:
                                ctx.violation("decode-truncated-part/%s" % cls.__name__,
                                              "%s: decode consumed %d bytes but the decoded value re-encodes to %d different bytes "
                                              "(a length-prefixed part does not have its declared length)" % (
                                                  cls.__name__, off2 - off, len(again)), meta)
                        except Exception:   # noqa - non-canonical values may not re-encode
                            pass
                    # consume_all API
                try:
                    lst = ser.unpack_serializable_list([sh], data, off)
                    if ok and off2 is not None and off2 < len(data):
                        ctx.violation("consume-all-accepts-extra/%s" % cls.__name__, "trailing bytes accepted", meta)
                    if not ok:
                        ctx.violation("consume-all-inconsistent/%s" % cls.__name__, "list decode accepts what single decode rejects", meta)
                    elif off2 > len(data):
                        ctx.violation("decode-overread/%s" % cls.__name__, "consume_all accepted a decode ending at %d of %d bytes" % (off2, len(data)), meta)
                except Exception:   # noqa
                    pass
    # ---- packer level: self-delimiting formats are prefix-free - no strict prefix of an encoding may decode
    pref_n = 0
    for name, d in sorted(reg.items()):
        if d[0] in ("raw", "nested") or (d[0] == "listof" and d[2][0] == "nested"):
            continue
        packer = ser._packers[name]
        for _ in range(3 if ctx.quick else 12):
            try:
                v = wire.gen_value(r, d, keys, 1, gen_class)
                bs = packer.pack(*v) if d[0] == "bits" or (d[0] == "struct" and len(d[1]) > 1) else packer.pack(v)
            except Exception:   # noqa - not a legal value for this packer
                continue
            if len(bs) > 300:
                continue
            for k in range(len(bs)):
                lst = []
                pref_n += 1
                try:
                    end = packer.unpack(bs[:k], 0, lst)
                except Exception:   # noqa - rejected, as it must be
                    continue
                ctx.violation("decode-truncated-accepted/%s" % name,
                              "%s.unpack accepts the first %d of the %d bytes of an encoding (reported end %s, value %r)" % (
                                  name, k, len(bs), end, lst[:1]),
                              {"kind": "packer-prefix", "name": name, "data": bs.hex(), "cut": k})
                break
    ctx.extra["packer_prefix_inputs"] = pref_n
    ctx.extra["decode_outcomes"] = kinds
    if cases:
        ctx.sample({"decode_case": cases[len(cases) // 2][2]})
    if text is not None:
        mism, errs = coqrun.eval_mismatches(IMPORTS_W, "run_unpackm", "res_eqb_loose vso_eqb", [(c, e) for c, e, _ in cases],
                                            os.path.join(ctx.scratch, "dec"), ctype="unpackm_case * res (list val * nat)",
                                            shard=250, jobs=14)
        for e in errs:
            ctx.broke("model evaluation failed (decode)", e)
        for i in mism[:8]:
            ctx.broke("correspondence (decode): wire model and Serializer differ on a malformed input", json.dumps(cases[i][2])[:1200])
        ctx.coverage["traces_validated_against_impl"] += len(cases) - len(mism)

    # ------------------------------------------------------------------ B: receive path of real overlays
    net = simnet.SimNet()
    node = Node(net, ("10.0.0.1", 1000), overlay_classes())
    peer = Node(net, ("10.0.0.2", 1000), overlay_classes())
    # a short protocol run to capture valid datagrams (walks / pings between the two nodes)
    for a, b in zip(node.overlays, peer.overlays):
        try:
            a.walk_to(b.my_peer.address)
        except Exception:   # noqa
            pass
    await net.pump()
    captured = [d for (_, _, d) in net.log]
    ctx.extra["captured_datagrams"] = len(captured)
    prefixes = [ov.get_prefix() for ov in node.overlays]
    inputs = []
    for n in range(0, 41):
        inputs.append(bytes(n))
        inputs.append(r.randbytes(n))
        for p in prefixes:
            inputs.append((p + r.randbytes(20))[:n])
    for p in prefixes:
        lens = [23, 24, 29, 30, 31] if ctx.quick else range(22, 40)
        for mid in range(256):
            for n in lens:
                body = r.choice([bytes(n), r.randbytes(n), b"\x00\x00\x00\x07\x01\x01" + r.randbytes(n)])
                inputs.append((p + bytes([mid]) + body)[:n])
    for d in captured:
        cuts = range(len(d) + 1) if len(d) <= 80 or not ctx.quick else sorted(set([0, 22, 23, len(d)] + [r.randrange(len(d)) for _ in range(30)]))
        for n in cuts:
            inputs.append(d[:n])
        for _ in range(10 if ctx.quick else 100):
            b = bytearray(d)
            b[r.randrange(len(b))] ^= 1 << r.randrange(8)
            inputs.append(bytes(b))
    for _ in range(2000 if ctx.quick else 30000):
        n = r.choice([0, 1, 21, 22, 23, 30, 100, 600, 1500])
        p = r.choice(prefixes + [r.randbytes(22)])
        inputs.append((p + r.randbytes(max(0, n - 22)))[:n] if r.random() < 0.8 else r.randbytes(n))
    inputs = list(dict.fromkeys(inputs))
    try:
        ep_term = node.model_endpoint()
    except Exception as e:   # noqa
        ctx.broke("abstraction of the listener table failed", repr(e))
        ep_term = None
    rcases = []
    entered_n = 0
    by_id = {id(ov): ov for ov in node.overlays}
    for data in inputs:
        esc, evs = node.feed(data)
        ctx.count(("recv", data), nontrivial=len(data) >= 22)
        meta = {"kind": "recv", "data": data.hex()}
        if esc is not None:
            ctx.violation("escape/%s" % esc, "%s escapes Endpoint.notify_listeners for a %d-byte datagram" % (esc, len(data)), meta)
        # expected deliveries: every listener selected for this prefix
        sel = node.ep._prefix_map.get(data[:22], node.ep._listeners)
        want = [node.index[id(l)] for l in sel]
        got = [e[1] for e in evs if e[0] == "delivered"]
        if esc is None and got != want:
            ctx.violation("not-delivered", "listeners %s selected, delivered to %s" % (want, got), meta)
        missing = [i for i in node.expected_listeners(data) if i not in got]
        if esc is None and missing:
            ctx.violation("not-delivered/overlay-with-that-prefix", "overlays fronted by listeners %s carry the datagram's prefix but were not "
                          "delivered to (delivered: %s)" % (missing, got), meta)
        mevs = []
        for e in evs:
            if e[0] == "delivered":
                mevs.append("Delivered %d" % e[1])
                continue
            ov = by_id[e[0]]
            entered_n += 1
            hd = e[3] if e[3] is not None else data
            if data[:22] != ov.get_prefix() or len(data) < 23:
                ctx.violation("foreign-datagram-enters-handler/%s" % type(ov).__name__,
                              "handler %d of %s entered for a datagram with prefix %s" % (e[1], type(ov).__name__, data[:22].hex()), meta)
            if not e[2]:
                mevs.append("Entered %d %d %s" % (node.overlay_index(ov), e[1], zl(hd)))
        if ep_term is not None and esc is None:
            rcases.append(("(%s)" % zl(data), "Ok [%s]" % "; ".join(mevs), meta))
    # ---- overlays that SHARE a prefix on one endpoint (registration order must not make an earlier one deaf)
    from ipv8.attestation.identity.community import IdentityCommunity
    from ipv8.dht.community import DHTCommunity
    from ipv8.dht.discovery import DHTDiscoveryCommunity
    from ipv8.messaging.anonymization.community import TunnelCommunity
    from ipv8.messaging.anonymization.hidden_services import HiddenTunnelCommunity
    shared_n = 0
    for combo in ([(DHTCommunity, {}), (DHTDiscoveryCommunity, {})], [(DHTDiscoveryCommunity, {}), (DHTCommunity, {})],
                  [(TunnelCommunity, {}), (HiddenTunnelCommunity, {})],
                  [(IdentityCommunity, {"working_directory": ":memory:"}), (IdentityCommunity, {"working_directory": ":memory:"})],
                  [(DHTCommunity, {}), (TunnelCommunity, {}), (DHTDiscoveryCommunity, {}), (HiddenTunnelCommunity, {})]):
        net2 = simnet.SimNet()
        try:
            n2 = Node(net2, ("10.0.7.1", 1000), combo)
        except Exception as e:   # noqa
            ctx.broke("harness: overlays sharing a prefix could not be loaded", repr(e))
            continue
        for ov in n2.overlays:
            for tail in (bytes([1]) + r.randbytes(20), bytes([246]) + r.randbytes(40), r.randbytes(1)):
                data = ov.get_prefix() + tail
                esc, evs = n2.feed(data)
                shared_n += 1
                ctx.count(("recv-shared", data), nontrivial=True)
                meta = {"kind": "recv-shared", "overlays": [c.__name__ for c, _ in combo], "data": data.hex()}
                if esc is not None:
                    ctx.violation("escape/%s" % esc, "%s escapes Endpoint.notify_listeners for a %d-byte datagram" % (esc, len(data)), meta)
                    continue
                got = [e[1] for e in evs if e[0] == "delivered"]
                missing = [i for i in n2.expected_listeners(data) if i not in got]
                if missing:
                    ctx.violation("not-delivered/overlay-with-that-prefix",
                                  "overlays %s share a prefix on one endpoint; the listeners %s of overlays carrying the datagram's prefix "
                                  "were not delivered to (delivered: %s)" % ([c.__name__ for c, _ in combo], missing, got), meta)
        for ov in n2.overlays:
            try:
                await ov.unload()
            except Exception:   # noqa
                pass
    ctx.extra["recv_shared_prefix_inputs"] = shared_n
    # ---- datagrams from the address of a peer the receiver has known and then forgotten (the receive path consults the
    #      peer graph by source address before anything else)
    from ipv8.keyvault.crypto import default_eccrypto as _ec
    from ipv8.peer import Peer as _Peer
    stale_n = 0
    for how in ("remove_by_address", "moved-then-remove_peer", "remove_peer", "replaced-by-new-object"):
        net3 = simnet.SimNet()
        n3 = Node(net3, ("10.0.8.1", 1000), overlay_classes())
        src = ("10.0.8.%d" % (10 + stale_n % 200), 4321)
        key = _ec.generate_key("curve25519").pub().key_to_bin()
        for ov in n3.overlays:
            p = _Peer(key, src)
            ov.network.add_verified_peer(p)
            ov.network.get_verified_by_address(src)          # what receiving a datagram from src does
            if how == "remove_by_address":
                ov.network.remove_by_address(src)
            elif how == "moved-then-remove_peer":
                p.add_address(("10.0.9.9", 77))
                ov.network.remove_peer(p)
            elif how == "remove_peer":
                ov.network.remove_peer(p)
            else:
                ov.network.remove_peer(p)
                ov.network.add_verified_peer(_Peer(key, ("10.0.9.8", 78)))
        for ov in n3.overlays:
            for data in (ov.get_prefix() + bytes([246]) + r.randbytes(60), ov.get_prefix(), ov.get_prefix() + b"\x01", r.randbytes(40)):
                esc, evs = n3.feed(data, src)
                stale_n += 1
                ctx.count(("recv-stale", how, data), nontrivial=True)
                meta = {"kind": "recv-stale", "how": how, "data": data.hex(), "src": list(src)}
                if esc is not None:
                    ctx.violation("escape/%s/forgotten-source" % esc, "%s escapes Endpoint.notify_listeners for a %d-byte datagram from the "
                                  "address of a peer the receiver knew and forgot (%s)" % (esc, len(data), how), meta)
                    continue
                got = [e[1] for e in evs if e[0] == "delivered"]
                missing = [i for i in n3.expected_listeners(data) if i not in got]
                if missing:
                    ctx.violation("not-delivered/overlay-with-that-prefix", "listeners %s not delivered to (datagram from a forgotten "
                                  "peer's address, %s)" % (missing, how), meta)
        for ov in n3.overlays:
            try:
                await ov.unload()
            except Exception:   # noqa
                pass
    ctx.extra["recv_forgotten_source_inputs"] = stale_n
    ctx.extra["recv_inputs"] = len(inputs)
    ctx.extra["handler_entries"] = entered_n
    ctx.sample({"recv_input": inputs[len(inputs) // 3].hex(), "captured_example": captured[0].hex() if captured else None})
    if text is not None and ep_term is not None:
        pre = ("Definition the_ep := %s.\n"
               "Definition run_recv (d : bytes) : res (list ev) :=\n"
               "  notify (fun _ _ _ => Ok tt) (fun _ p m => if p then Some m else None) (fun _ m => Some m) the_ep d.\n"
               "Definition ev_eqb (a b : ev) : bool := match a, b with\n"
               "  | Delivered i, Delivered j => Nat.eqb i j\n"
               "  | Entered i m d, Entered j n e => Nat.eqb i j && (m =? n) && bytes_eqb d e\n"
               "  | Relayed i c m, Relayed j d n => Nat.eqb i j && (c =? d) && bytes_eqb m n\n"
               "  | _, _ => false end.\n"
               "Fixpoint evs_eqb (a b : list ev) : bool := match a, b with [], [] => true\n"
               "  | x :: a', y :: b' => ev_eqb x y && evs_eqb a' b' | _, _ => false end.\n") % ep_term
        mism, errs = coqrun.eval_mismatches(IMPORTS_R, "run_recv", "res_eqb evs_eqb", [(c, e) for c, e, _ in rcases],
                                            os.path.join(ctx.scratch, "recv"), ctype="bytes * res (list ev)",
                                            shard=400, jobs=14, preamble=pre)
        for e in errs:
            ctx.broke("model evaluation failed (recv)", e)
        for i in mism[:8]:
            ctx.broke("correspondence (recv): receive-path model and implementation differ", json.dumps(rcases[i][2])[:600] + " impl=" + rcases[i][1][:300])
        ctx.coverage["traces_validated_against_impl"] += len(rcases) - len(mism)
    # ------------------------------------------------------------------ C: nodes that hold live circuits
    await _stateful_cells(ctx, r)

    # load_snapshot: total, terminates, only adds decoded addresses
    from ipv8.peerdiscovery.network import Network
    for _ in range(300 if ctx.quick else 5000):
        blob = r.randbytes(r.choice([0, 1, 6, 7, 8, 30, 100]))
        if r.random() < 0.5:
            blob = ser.pack("address", wire.gen_addr(r, False)) + blob
        nw = Network()
        try:
            nw.load_snapshot(blob)
        except Exception as e:   # noqa
            ctx.violation("load_snapshot/raises", "load_snapshot raises %s" % type(e).__name__, {"kind": "snapshot", "data": blob.hex()})
        ctx.coverage["evaluations"] += 1
    for n in (node, peer):
        for ov in n.overlays:
            try:
                await ov.unload()
            except Exception:   # noqa
                pass
    ctx.coverage["rule"] = ("(A) per shipped class: generated instances, every truncation point, corrupted bytes, extensions, random bytes, at "
                            "offsets 0/3; (B) all lengths 0..40 x {zeros, random, each overlay prefix}, every message id x short lengths per "
                            "overlay, every truncation and bit flips of captured real datagrams, random strings up to 1500 bytes biased to "
                            "valid prefixes; non-trivial = reaches the decoder / is at least 22 bytes; distinct by input bytes")


async def _stateful_cells(ctx, r):
    """Cells for circuits the receiving node really holds (originator, relay, exit), including bodies that are
    validly encrypted under the session keys - what the other members of a circuit can send."""
    from ipv8.messaging.anonymization.payload import CellPayload
    from tools.vlib.tunnelnet import TunnelNet
    tn = TunnelNet(n_relays=2, n_exits=1)
    await tn.start()
    try:
        c = await tn.build_circuit(2)
        if c is None:
            ctx.broke("could not build a circuit for the stateful receive-path part", "")
            return
        o = tn.origin
        prefix = o.get_prefix()
        relay = tn.node_of(c.hops[0].peer.address)
        exitn = next(ov for n, ov in tn.nodes.items() if ov.exit_sockets)
        ecid = next(iter(exitn.exit_sockets))
        n_cells = 0
        messages = [b"", b"\x00", b"\x01", b"\x04", b"\x02\x00", bytes([1]) + bytes(10)] + \
                   [bytes([m]) + r.randbytes(r.choice([0, 3, 8, 40])) for m in range(0, 22)]

        def deliver(dst_node, src_addr, cid, body, plaintext=False, early=False, how=""):
            nonlocal n_cells
            data = CellPayload(cid, body, plaintext, early).to_bin(prefix)
            n_cells += 1
            ctx.count(("cell", how, data), nontrivial=True)
            before = len(tn.net.escaped)
            tn.net.queue.append((tuple(src_addr), dst_node.my_peer.address, data))
            return data, before
        for msg in messages:
            for early in (False, True):
                # forward: originator -> first hop, all layers applied as the originator does
                cell = CellPayload(c.circuit_id, msg, False, early)
                o.crypto_endpoint.encrypt_cell(cell, 0, *c.hops)
                deliver(relay, o.my_peer.address, c.circuit_id, cell.message, False, early, "forward-encrypted")
                # backward: exit -> previous hop
                xs = exitn.exit_sockets[ecid]
                cell = CellPayload(ecid, msg, False, early)
                exitn.crypto_endpoint.encrypt_cell(cell, 1, xs.hop)
                deliver(tn.node_of(xs.hop.peer.address), exitn.my_peer.address, ecid, cell.message, False, early, "backward-encrypted")
                # plaintext flag on a known circuit
                deliver(exitn, xs.hop.peer.address, ecid, msg, True, early, "plaintext-known-circuit")
            await tn.settle()
        # unauthenticated bodies for known circuit ids at every role
        for node, cid, src in ((o, c.circuit_id, relay.my_peer.address), (exitn, ecid, exitn.exit_sockets[ecid].hop.peer.address),
                               (relay, c.circuit_id, o.my_peer.address)):
            for n in list(range(0, 60)) + [100, 500]:
                deliver(node, src, cid, r.randbytes(n), False, r.random() < 0.5, "garbage-known-circuit")
            await tn.settle()
        for (dst, data, e) in tn.net.escaped:
            ctx.violation("escape/%s/stateful" % type(e).__name__,
                          "%s escapes notify_listeners at a node holding the cell's circuit (%d-byte cell)" % (type(e).__name__, len(data)),
                          {"kind": "stateful-cell", "data": data.hex(), "dst": list(dst)})
        ctx.extra["stateful_cells"] = n_cells
        ctx.extra["stateful_crypto_calls"] = len(tn.crypto_log)
    finally:
        await tn.stop()


def _noncanon(f):
    k = f[0]
    if k in ("nested", "addr", "node", "bits", "flags"):
        return True
    if k == "struct":
        return any(p[0] in ("bool", "F") for p in f[1])
    if k == "listof":
        return _noncanon(f[2])
    if k == "array":
        return True
    return False


def replay(path):
    import importlib
    js = json.load(open(path))
    rc = 0
    loop = asyncio.new_event_loop()
    asyncio.set_event_loop(loop)

    async def recv(data):
        net = simnet.SimNet()
        node = Node(net, ("10.0.0.1", 1000), overlay_classes())
        # use the recorded prefix if it names one of the overlays, else as is
        esc, evs = node.feed(data)
        for ov in node.overlays:
            await ov.unload()
        return esc, evs
    ser = wire.make_serializer()
    for v in js.get("violations", []):
        c = v["case"]
        print(v["key"], "::", v["what"])
        if c["kind"] == "packer-prefix":
            lst = []
            try:
                end = ser._packers[c["name"]].unpack(bytes.fromhex(c["data"])[:c["cut"]], 0, lst)
                print("  still accepts the %d-byte prefix: end %s value %r" % (c["cut"], end, lst[:1]))
                rc = 1
            except Exception as e:   # noqa
                print("  now rejects the prefix:", type(e).__name__)
        elif c["kind"] == "recv-stale":
            print("  datagram from the address of a forgotten peer (%s):" % c["how"], c["data"][:60])
            rc = 1
        elif c["kind"] == "recv-shared":
            print("  overlays sharing a prefix:", c["overlays"], "datagram", c["data"][:60])
            rc = 1
        elif c["kind"] == "recv-gen":
            from tools.checks import c03_recv_gen
            rc |= c03_recv_gen.replay_case(c)
        elif c["kind"] == "recv":
            esc, evs = loop.run_until_complete(recv(bytes.fromhex(c["data"])))
            print("  escaped:", esc, " events:", [(e[0], e[1]) for e in evs])
            rc |= int(esc is not None)
        elif c["kind"] == "decode":
            mod, _, name = c["cls"].rpartition(".")
            cls = getattr(importlib.import_module(mod), name)
            data = bytes.fromhex(c["data"])
            try:
                raw, off2 = ser.unpack_serializable(wire.shim(cls), data, c["offset"])
                print("  accepted, end offset %d of %d bytes" % (off2, len(data)))
                rc |= int(off2 > len(data))
            except Exception as e:   # noqa
                print("  rejected:", type(e).__name__)
    for b in js.get("no_longer_checks", []):
        print("no longer checks:", b["what"], b["detail"][:300])
        rc = 1
    return rc
