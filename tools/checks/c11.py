"""C11 - an unloaded overlay is silent and holds no resources.

Stage G: tools/tr/tr_lifecycle.py regenerates coq/gen/G11_api.v (which listener-table methods the endpoint
         wrappers define) and coq/gen/G11_unload.v (the flattened step list of every shipped overlay class's
         unload(), resolved through the MRO) from the source.
Stage P: props/C11.v over the models M11_listeners.v (listener table + wrappers), M11_tasks.v (task manager on
         asyncio's ready queue) and M11_lifecycle.v (their composition per overlay class).
Stage C: (a) listener table and (b) task manager: exhaustive and random operation histories on the real classes,
         compared with the models inside Coq; (c) whole system: every shipped overlay class with default settings
         on the simulated network under virtual time, scripted protocol runs, unload requested at every step and
         at random virtual times, then late datagrams of every message id and two hours of virtual time.
Oracle : independent Python statements of the property on what the implementation did (c11_machines.py for the
         two machines, class Watch below for the whole system).
"""
from __future__ import annotations

import itertools
import json
import os

from tools.vlib import c11_machines as mach
from tools.vlib import coqrun
from tools.vlib.coqrun import zl, cb

HERE = os.path.dirname(os.path.abspath(__file__))
CORPUS = os.path.join(os.path.dirname(os.path.dirname(HERE)), "corpus", "C11")

IMPORTS_L = ("From Coq Require Import ZArith List Bool.\n"
             "From IPV8V Require Import lib.PyErr lib.Bytes model.M11_listeners.\n"
             "Import ListNotations.\nOpen Scope Z_scope.\n")
IMPORTS_TG = ("From Coq Require Import ZArith List Bool.\n"
              "From IPV8V Require Import lib.PyErr lib.Bytes model.M11_listeners model.M11_tasks gen.G11_taskmanager model.M11_tasks_gen.\n"
              "Import ListNotations.\nOpen Scope Z_scope.\n")
IMPORTS_T = ("From Coq Require Import ZArith List Bool.\n"
             "From IPV8V Require Import lib.PyErr model.M11_tasks.\n"
             "Import ListNotations.\nOpen Scope Z_scope.\n")


# ======================================================================================= (a) listener table
PRE_L = ("Definition P (i : Z) : bytes := [0; 2] ++ repeat i 20.\n"
         "Definition Q (i : Z) (n : nat) : bytes := [0; 2] ++ repeat i n.\n"
         "Definition D (i : Z) : bytes := P i ++ [7; 7].\n"
         "Definition ALL := mkApi true true true true.\n")


def lprefix_coq(i):
    return "(P %d)" % i if i < 100 else "(Q %d %d%%nat)" % (i % 256, i - 100)


def ldata(i):
    """a datagram whose first 22 bytes are prefix i (i < 100), or a short one"""
    return mach.prefix_bytes(i) + b"\x07\x07" if i < 100 else mach.prefix_bytes(i)


def ldata_coq(i):
    return "(D %d)" % i if i < 100 else lprefix_coq(i)


def lop_coq(op):
    k = op[0]
    if k == "add":
        return "AddL %d" % op[1]
    if k == "addp":
        return "AddP %d %s" % (op[1], lprefix_coq(op[2]))
    if k == "rem":
        return "RemL %d" % op[1]
    if k == "open":
        return "SetOpen %s" % cb(op[1])
    if k == "anon":
        return "SetAnonL %d %s" % (op[1], cb(op[2]))
    if k == "socket":
        return "Socket %s" % ldata_coq(op[1])
    return "Tunnel %s %s" % (ldata_coq(op[1]), cb(op[2]))


def lop_impl(op):
    if op[0] in ("socket", "tunnel"):
        return (op[0], ldata(op[1])) + tuple(op[2:])
    return op


def bytes_coq(b):
    """render the prefixes the harness uses compactly"""
    b = bytes(b)
    if len(b) == 22 and b[:2] == b"\x00\x02" and b[2:] == bytes([b[2]]) * 20:
        return "(P %d)" % b[2]
    return zl(b)


def lexpected_coq(results, tables):
    rs = []
    for r in results:
        if r[0] == "ok":
            rs.append("Ok %s" % zl(r[1]))
        else:
            rs.append("Raise %s" % {"RuntimeError": "RuntimeError", "IllegalEndpointListenerError": "RuntimeError"}.get(r[1], "TypeError"))
    g, pm = tables
    return "([%s], (%s, [%s]))" % ("; ".join(rs), zl(g), "; ".join("(%s, %s)" % (bytes_coq(p), zl(ls)) for p, ls in pm))


def wrapper_coq(w):
    return {None: "WPlain", "tunnel": "(WTunnel ALL)", "stats": "(WStats ALL)"}[w]


def gen_listener_ops(r, n, wrapper, nl=3, npfx=2):
    ops = []
    for _ in range(n):
        k = r.choices(["add", "addp", "rem", "socket", "tunnel", "open", "anon"], [3, 4, 4, 4, 2 if wrapper == "tunnel" else 0, 0.5, 1 if wrapper == "tunnel" else 0])[0]
        l = r.randrange(1, nl + 1)
        if k == "add":
            ops.append(("add", l))
        elif k == "addp":
            ops.append(("addp", l, r.randrange(npfx) if r.random() < 0.93 else r.choice([100, 121, 123])))
        elif k == "rem":
            ops.append(("rem", l))
        elif k == "socket":
            ops.append(("socket", r.randrange(npfx + 1) if r.random() < 0.9 else 110))
        elif k == "tunnel":
            ops.append(("tunnel", r.randrange(npfx + 1), r.random() < 0.6))
        elif k == "open":
            ops.append(("open", r.random() < 0.6))
        else:
            ops.append(("anon", l, r.random() < 0.6))
    return ops


def exhaustive_listener_ops(depth):
    """all histories over a reduced alphabet: 2 listeners, 1 prefix + unknown prefix"""
    alpha = [("add", 1), ("add", 2), ("addp", 1, 0), ("addp", 2, 0), ("rem", 1), ("rem", 2), ("socket", 0), ("socket", 1)]
    for d in range(1, depth + 1):
        for seq in itertools.product(alpha, repeat=d):
            # only histories that end in a notification or a removal are informative as leaves
            if seq[-1][0] in ("socket", "rem"):
                yield list(seq)


def stage_listeners(ctx):
    r = ctx.rng("listeners")
    cases, meta = [], []
    hist = []
    depth = 4 if ctx.quick else 6
    for ops in exhaustive_listener_ops(depth):
        hist.append((None, ops))
    for w in ("tunnel", "stats"):
        for ops in exhaustive_listener_ops(3 if ctx.quick else 5):
            hist.append((w, ops))
    for i in range(400 if ctx.quick else 6000):
        w = r.choice([None, "tunnel", "tunnel", "stats"])
        hist.append((w, gen_listener_ops(r, r.choice([4, 8, 14, 24]), w, nl=r.choice([2, 3, 4]), npfx=r.choice([1, 2, 3]))))
    for w, ops in hist:
        results, tables, bad = mach.run_listener_history(w, [lop_impl(o) for o in ops])
        ctx.count(("L", w, tuple(ops)), nontrivial=any(res[0] == "ok" and res[1] for res in results))
        for key, what in bad:
            ctx.violation(key, what, {"kind": "listeners", "wrapper": w, "ops": ops})
        if w == "stats":
            # listener 0 (the statistics endpoint itself) is registered by its constructor
            mops = [("add", 0)] + ops
            results = [("ok", [])] + results
        else:
            mops = ops
        cases.append(("(%s, [%s])" % (wrapper_coq(w), "; ".join(lop_coq(o) for o in mops)), lexpected_coq(results, tables)))
        meta.append((w, ops))
    ctx.sample({"listener_history": {"wrapper": meta[-1][0], "ops": meta[-1][1]}})
    return cases, meta


def eval_listeners(ctx, cases, meta):
    mism, errs = coqrun.eval_mismatches(IMPORTS_L, "run_case", "lobs_eqb", cases, os.path.join(ctx.scratch, "lst"),
                                        ctype="(wrapper * list lop) * lobs", shard=1500, preamble=PRE_L)
    for e in errs:
        ctx.broke("model evaluation failed (listeners)", e)
    for i in mism[:10]:
        ctx.broke("correspondence: listener table history differs between model and implementation (wrapper %s)" % meta[i][0],
                  json.dumps({"wrapper": meta[i][0], "ops": meta[i][1], "impl": cases[i][1][:600]}))
    ctx.coverage["traces_validated_against_impl"] += len(cases) - len(mism)


# ======================================================================================= (b) task manager
def name_coq(n):
    return "(Named %d)" % n[1] if n[0] == "named" else "(Anon %d %d)" % (n[1], n[2])


def nat(i):
    return "%d%%nat" % i


def top_coq(op):
    k = op[0]
    kd = {"coro": "KCoro", "fut": "KFut"}
    if k == "register":
        return "Register %s %s" % (name_coq(op[1]), kd[op[2]])
    if k == "anon":
        return "RegisterAnon %d %s" % (op[1], kd[op[2]])
    if k == "cancel":
        return "Cancel %s" % name_coq(op[1])
    if k == "replace":
        return "Replace %s" % name_coq(op[1])
    if k == "shutdown":
        return "Shutdown"
    if k == "complete":
        return "Complete %s" % nat(op[1])
    if k == "extcancel":
        return "ExtCancel %s" % nat(op[1])
    return "Tick"


def regres_coq(x):
    if isinstance(x, tuple):
        return "(RNew %s)" % nat(x[1])
    return {"refused": "RRefused", "raise": "RRaise"}[x]


def out_coq(o):
    if o[0] == "started":
        return "OStarted %s" % nat(o[1])
    if o[0] == "reg":
        return "OReg %s" % regres_coq(o[1])
    return "ORepl %s %s %s" % ("None" if o[1] is None else "(Some %s)" % nat(o[1]), cb(o[2]), regres_coq(o[3]))


def tobs_coq(outs, obs):
    tasks, pend, shut, counter = obs
    return "([%s], ([%s], [%s], %s, %d))" % (
        "; ".join(out_coq(o) for o in outs),
        "; ".join("(%s, %s)" % (cb(d), cb(c)) for d, c in tasks),
        "; ".join("(%s, %s)" % (name_coq(n), nat(t)) for n, t in pend),
        cb(shut), counter)


A, B = ("named", 1), ("named", 2)


def exhaustive_task_ops(depth):
    alpha = [("register", A, "coro"), ("register", A, "fut"), ("anon", 5, "coro"), ("cancel", A), ("replace", A),
             ("shutdown",), ("complete", 1), ("complete", 2), ("extcancel", 1), ("tick",)]
    for seq in itertools.product(alpha, repeat=depth):
        yield list(seq)


def gen_task_ops(r, n):
    ops = []
    names = [A, B, ("named", 0)] if r.random() < 0.3 else [A, B]
    for _ in range(n):
        k = r.choices(["register", "anon", "cancel", "replace", "shutdown", "complete", "extcancel", "tick"],
                      [5, 2, 3, 4, 0.4, 3, 1, 6])[0]
        if k == "register":
            ops.append(("register", r.choice(names), r.choice(["coro", "coro", "fut"])))
        elif k == "anon":
            ops.append(("anon", r.choice([5, 6]), r.choice(["coro", "fut"])))
        elif k in ("cancel", "replace"):
            ops.append((k, r.choice(names)))
        elif k == "shutdown":
            ops.append(("shutdown",))
        elif k == "complete":
            ops.append(("complete", r.randrange(1, 8)))
        elif k == "extcancel":
            ops.append(("extcancel", r.randrange(0, 8)))
        else:
            ops.append(("tick",))
    return ops


def stage_tasks(ctx):
    r = ctx.rng("tasks")
    hist = list(exhaustive_task_ops(3 if ctx.quick else 5))
    for i in range(1200 if ctx.quick else 12000):
        hist.append(gen_task_ops(r, r.choice([6, 10, 16, 24])))
    cases, meta = [], []
    for ops in hist:
        trace, bad = mach.run_task_history(ops)
        ctx.count(("T", tuple(ops)), nontrivial=any(o for o, _ in trace))
        for key, what in bad:
            ctx.violation(key, what, {"kind": "tasks", "ops": ops})
        mops = [("register", ("named", 0), "coro")] + ops
        # the constructor's registration of "_check_tasks": task 0, pending, not started
        first = ([("reg", ("new", 0))], ([(False, False)], [(("named", 0), 0)], False, 0))
        cases.append(("[%s]" % "; ".join(top_coq(o) for o in mops),
                      "[%s]" % "; ".join(tobs_coq(o, s) for o, s in [first] + trace)))
        meta.append(ops)
    ctx.sample({"task_history": meta[-1]})
    return cases, meta


def eval_generated(ctx, lcases, lmeta, tcases, tmeta):
    """the functions REGENERATED from taskmanager.py / endpoint.py (gen/G11_taskmanager.v through the interpreter
    M11_tasks_gen.v), evaluated in Coq on the same histories and compared with what the real classes did"""
    mism, errs = coqrun.eval_mismatches(IMPORTS_TG, "gen_run_tcase", "tobsl_eqb", tcases, os.path.join(ctx.scratch, "gtsk"),
                                        ctype="list top * list tobs", shard=700)
    for e in errs:
        ctx.broke("generated-model evaluation failed (tasks)", e)
    for i in mism[:10]:
        ctx.broke("correspondence: task manager history differs between the GENERATED model and the implementation",
                  json.dumps({"ops": tmeta[i], "impl": tcases[i][1][:900]}))
    n = len(tcases) - len(mism)
    mism, errs = coqrun.eval_mismatches(IMPORTS_TG, "gen_run_case", "lobs_eqb", lcases, os.path.join(ctx.scratch, "glst"),
                                        ctype="(wrapper * list lop) * lobs", shard=1500, preamble=PRE_L)
    for e in errs:
        ctx.broke("generated-model evaluation failed (listeners)", e)
    for i in mism[:10]:
        ctx.broke("correspondence: listener table history differs between the GENERATED model and the implementation "
                  "(wrapper %s)" % lmeta[i][0], json.dumps({"wrapper": lmeta[i][0], "ops": lmeta[i][1], "impl": lcases[i][1][:600]}))
    ctx.coverage["traces_validated_against_impl"] += n + len(lcases) - len(mism)


def eval_tasks(ctx, cases, meta):
    mism, errs = coqrun.eval_mismatches(IMPORTS_T, "run_tcase", "tobsl_eqb", cases, os.path.join(ctx.scratch, "tsk"),
                                        ctype="list top * list tobs", shard=700)
    for e in errs:
        ctx.broke("model evaluation failed (tasks)", e)
    for i in mism[:10]:
        ctx.broke("correspondence: task manager history differs between model and implementation",
                  json.dumps({"ops": meta[i], "impl": cases[i][1][:900]}))
    ctx.coverage["traces_validated_against_impl"] += len(cases) - len(mism)


# ======================================================================================= (c) whole system
IMPORTS_S = ("From Coq Require Import ZArith List Bool String.\n"
             "From IPV8V Require Import lib.PyErr lib.Bytes model.M11_listeners model.M11_tasks model.M11_lifecycle.\n"
             "Import ListNotations.\nOpen Scope Z_scope.\n")
PRE_S = ("Definition T (k : nat) (sh : bool) : tm := tm_of_tasks (map (fun i => (Named (Z.of_nat i), true)) (seq 1 k)) sh.\n"
         "Definition ALL := mkApi true true true true.\n")


def sys_jobs(ctx, dry):
    """the list of whole-system runs of this tier"""
    from tools.vlib import c11_system as S
    r = ctx.rng("system")
    T = S.scenario_table()
    jobs = []
    scripts = 1 if ctx.quick else 3
    for sc, (cls, kw, script, roles, wrapper) in T.items():
        for role in roles:
            for seed in range(1, scripts + 1):
                d = dry[(sc, seed)]
                resolved = None
                if role.startswith("@"):
                    resolved = d["info"].get(role[1:])
                    if resolved is None:
                        continue
                n = d["steps"]
                points = list(range(1, n + 2))
                if ctx.quick and (wrapper is not None or role == "n1"):
                    points = points[::3]          # second roles and wrapper variants: every third step in the quick tier
                elif ctx.quick and sc == "hidden-tunnel":
                    points = points[::2]
                for k in points:
                    jobs.append({"scenario": sc, "role": role, "resolved": resolved, "seed": seed, "unload_at": k,
                                 "eager": (k + seed) % 2 == 0})
                # random virtual times
                nt = 4 if ctx.quick else 42
                for i in range(nt):
                    t = round(r.uniform(0.0, d["info"]["vtime"] + 2.0), 3)
                    jobs.append({"scenario": sc, "role": role, "resolved": resolved, "seed": seed, "unload_time": t,
                                 "eager": i % 2 == 0})
    return jobs


def node_coq(pre):
    w = {None: "WPlain", "tunnel": "(WTunnel ALL)", "stats": "(WStats ALL)"}[pre["wrapper"]]
    ep = "(mkEp %s empty_table (mkT %s [%s] %s) [])" % (
        w, zl(pre["glob"]), "; ".join("(%s, %s)" % (zl(p), zl(ls)) for p, ls in pre["pmap"]), cb(pre["open"]))

    def tm(st):
        return "(T %d%%nat %s)" % (st["pending"], cb(st["shut"]))
    cache = "(Some %s)" % tm(pre["cache"]) if pre["cache"] is not None else "None"
    socks = "[%s]" % "; ".join("mkSock %s %s" % (cb(s["open"]), tm(s)) for s in pre["socks"])
    return "(mkNode %s 1 %s %s %s %s)" % (ep, "(Some 2)" if pre["crypto"] else "None", tm(pre["own"]), cache, socks)


def obs_coq(post):
    return "(mkObs %s %s %s %d%%nat %s %d%%nat %d%%nat %d%%nat)" % (
        cb(post["self"]), cb(post["crypto"]), cb(post["own_shut"]), post["own_pending"], cb(post["cache_shut"]),
        post["cache_pending"], post["socks_open"], post["sock_tasks"])


def stage_system(ctx, rows, pool):
    from tools.vlib import c11_system as S
    T = S.scenario_table()
    by_cls = {n: (c, k, s, st) for n, c, k, s, st in rows} if rows else {}
    seeds = range(1, (1 if ctx.quick else 3) + 1)
    if True:
        dry_jobs = [{"scenario": sc, "role": T[sc][3][0], "seed": seed, "dry": True} for sc in T for seed in seeds]
        dry = {}
        for res in pool.map(S.run_job, dry_jobs):
            if "crash" in res:
                ctx.broke("whole-system dry run crashed (%s)" % res["job"]["scenario"], res["crash"])
                return [], []
            dry[(res["job"]["scenario"], res["job"]["seed"])] = res
            for key, what in res["bad"]:
                ctx.violation(key, "%s [%s, unload after the whole script]" % (what, res["job"]["scenario"]),
                              {"kind": "system", "job": res["job"]})
        jobs = sys_jobs(ctx, dry)
        results = pool.map(S.run_job, jobs, chunksize=8)
    cases, meta = [], []
    stats = {"runs": 0, "late_datagrams": 0, "steps": {}, "classes": {}}
    for res in results:
        job = res["job"]
        if "crash" in res:
            ctx.broke("whole-system run crashed (%s)" % job["scenario"], res["crash"])
            continue
        stats["runs"] += 1
        stats["late_datagrams"] += res["late_datagrams"] + 256
        stats["classes"][res["cls"]] = stats["classes"].get(res["cls"], 0) + 1
        stats["steps"][job["scenario"]] = max(stats["steps"].get(job["scenario"], 0), res["steps"])
        ctx.count(("S", job["scenario"], job["role"], job.get("unload_at"), job.get("unload_time"), job["seed"]),
                  nontrivial=res["handler_entries_before"] > 0 or res["sends_before"] > 0)
        where = "step %s" % job["unload_at"] if job.get("unload_at") is not None else "t=%ss" % job.get("unload_time")
        for key, what in res["bad"]:
            ctx.violation(key, "%s [%s, node %s, unload at %s]" % (what, job["scenario"], job.get("resolved") or job["role"], where),
                          {"kind": "system", "job": job})
        pre, post = res.get("pre"), res.get("post")
        if pre is not None and post is not None and pre["cls"] in by_cls:
            c, k, s, steps = by_cls[pre["cls"]]
            cases.append(("(mkCls %s %s %s, %s, [%s])" % (cb(c), cb(k), cb(s), node_coq(pre), "; ".join(steps)), obs_coq(post)))
            meta.append((job, pre, post))
    ctx.extra["system"] = stats
    if meta:
        ctx.sample({"system_run": meta[len(meta) // 2][0], "before_unload": {k: v for k, v in meta[len(meta) // 2][1].items() if k != "pmap"},
                    "after_unload": meta[len(meta) // 2][2]})
    return cases, meta


def eval_system(ctx, cases, meta):
    # many runs abstract to the same node: evaluate each distinct case once
    uniq = {}
    for i, c in enumerate(cases):
        uniq.setdefault(c, i)
    ucases = list(uniq)
    mism, errs = coqrun.eval_mismatches(IMPORTS_S, "run_unload_case", "nobs_eqb", ucases, os.path.join(ctx.scratch, "sys"),
                                        ctype="(cls * node * list ustep) * nobs", shard=120, preamble=PRE_S)
    for e in errs:
        ctx.broke("model evaluation failed (unload)", e)
    for i in mism[:10]:
        job, pre, post = meta[uniq[ucases[i]]]
        ctx.broke("correspondence: state after unload() differs between the lifecycle model and %s" % pre["cls"],
                  json.dumps({"job": job, "before": {k: v for k, v in pre.items() if k != "pmap"}, "after_impl": post}, default=str))
    ctx.extra["system_distinct_abstract_cases"] = len(ucases)
    ctx.coverage["traces_validated_against_impl"] += len(cases) - sum(1 for c in cases if c in {ucases[i] for i in mism})


# ======================================================================================= corpus, run, replay
def replay_case(case):
    """re-run one recorded witness on the implementation; -> list of (key, what) found"""
    k = case["kind"]
    if k == "listeners":
        ops = [tuple(o) for o in case["ops"]]
        return mach.run_listener_history(case["wrapper"], [lop_impl(o) for o in ops])[2]
    if k == "tasks":
        ops = [tuple(tuple(x) if isinstance(x, list) else x for x in o) for o in case["ops"]]
        return mach.run_task_history(ops)[1]
    if k == "boot":
        from tools.vlib import c11_system as S
        res = S.run_boot_job(dict(case["job"]))
        if "crash" in res:
            return [("crash", res["crash"])]
        return res["bad"]
    if k == "api":
        from tools.vlib import c11_system as S
        res = S.run_api_job(dict(case["job"]))
        if "crash" in res:
            return [("crash", res["crash"])]
        return res["bad"]
    if k == "service-machine":
        ops = [tuple(o) for o in case["ops"]]
        return mach.run_service_history(ops)[2]
    if k == "service":
        from tools.vlib import c11_system as S
        res = S.run_service_job(dict(case["job"]))
        if "crash" in res:
            return [("crash", res["crash"])]
        return res["bad"]
    if k == "system":
        from tools.vlib import c11_system as S
        res = S.run_job(dict(case["job"]))
        if "crash" in res:
            return [("crash", res["crash"])]
        return res["bad"]
    return []


def stage_corpus(ctx):
    n = 0
    if os.path.isdir(CORPUS):
        for f in sorted(os.listdir(CORPUS)):
            if f.endswith(".json"):
                js = json.load(open(os.path.join(CORPUS, f)))
                for case in js["cases"]:
                    n += 1
                    for key, what in replay_case(case):
                        ctx.violation(key, "%s [corpus %s]" % (what, f), case)
    ctx.extra["corpus_cases_replayed"] = n


def run(ctx):
    from tools.tr import tr_lifecycle
    from tools.tr.tr_expr import Unsupported
    stage_corpus(ctx)
    rows = None
    pubs = None
    try:
        pubs = tr_lifecycle.public_coroutines()
    except Exception as e:   # noqa
        ctx.broke("translator tr_lifecycle.public_coroutines aborted", repr(e))
    try:
        t1, t2, api, rows = tr_lifecycle.write()
        ctx.extra["generated"] = {"gen/G11_api.v": len(t1), "gen/G11_unload.v": len(t2)}
        ctx.extra["wrapper_api"] = {k: list(v) for k, v in api.items()}
        ctx.extra["unload_steps"] = {n: st for n, c, k, s, st in rows}
    except (Unsupported, Exception) as e:   # noqa
        ctx.broke("translator tr_lifecycle aborted", repr(e))
    if rows is not None:
        ctx.proofs()
    # extension: the bodies of taskmanager.py and of the Endpoint listener table translated from the AST
    # (gen/G11_taskmanager.v), refinement theorems in props/C11x.v
    gen_text = None
    try:
        from tools.tr import tr_taskmanager
        gen_text = tr_taskmanager.write()
        ctx.extra.setdefault("generated", {})["gen/G11_taskmanager.v"] = len(gen_text)
    except (Unsupported, Exception) as e:   # noqa
        ctx.broke("translator tr_taskmanager aborted", repr(e))
    if gen_text is not None:
        ctx.proofs(part="C11x")
    ctx.coverage["trusted_base"] = [
        "Coq 8.16.1 kernel (coqc, vm_compute); no axioms (Print Assumptions: closed)",
        "translator tools/tr/tr_lifecycle.py (AST of the wrappers' listener methods and of every unload(); fail-closed)",
        "translator tools/tr/tr_taskmanager.py (AST of ipv8/taskmanager.py and of the Endpoint listener table -> effect lists) "
        "and the interpreter coq/model/M11_tasks_gen.v of those effects (refinement to the hand models proved in props/C11x.v)",
        "hand models M11_listeners.v / M11_tasks.v (incl. asyncio's FIFO ready queue, call_soon of done callbacks, "
        "Task/Future cancellation) / M11_lifecycle.v, tied by this run's correspondence",
        "model assumption: an overlay acts only on a datagram delivered to one of its listeners, in one of its live tasks, "
        "on a datagram at one of its open transports, or on an API call; a task asked to stop performs no further action",
        "harness: virtual-time loop, simulated network, fake datagram transports, executor jobs run inline, spies on "
        "TaskManager.__init__/register_task, on_packet, handlers, endpoint.send",
    ]
    ctx.assumptions = ["listener objects compare by identity", "task bodies do not swallow CancelledError",
                       "bootstrappers, executor threads, DNS resolution and OS-level socket release are outside the model "
                       "(observed through fakes)", "a PexCommunity started by HiddenTunnelCommunity is a separate overlay instance"]
    import multiprocessing
    import threading
    import time as _time
    t0 = _time.time()
    pool = multiprocessing.Pool(12)      # forked before any thread is started
    lc, lm = stage_listeners(ctx)
    tc, tmeta = stage_tasks(ctx)
    vc, vmeta = stage_service_machine(ctx)
    t1 = _time.time()
    # the two machine models are evaluated inside Coq while the whole-system runs are under way
    th = [threading.Thread(target=eval_listeners, args=(ctx, lc, lm)), threading.Thread(target=eval_tasks, args=(ctx, tc, tmeta))]
    if gen_text is not None:
        th.append(threading.Thread(target=eval_generated, args=(ctx, lc, lm, tc, tmeta)))
    if rows is not None:      # (the service model is evaluated against the generated step list)
        th.append(threading.Thread(target=eval_service, args=(ctx, vc, vmeta)))
    for t in th:
        t.start()
    try:
        stage_boot(ctx, pool)
        stage_api(ctx, pool, pubs)
        stage_service_system(ctx, pool)
        sc, sm = stage_system(ctx, rows, pool)
    finally:
        pool.terminate()
        pool.join()
    t2 = _time.time()
    for t in th:
        t.join()
    if sc:
        eval_system(ctx, sc, sm)
    ctx.extra["stage_wall_s"] = {"machines_impl": round(t1 - t0, 1), "system_impl": round(t2 - t1, 1), "coq_tail": round(_time.time() - t2, 1)}
    ctx.coverage["rule"] = (
        "(a) listener table: all histories to depth %d over {add, add_prefix, remove, socket datagram} x 2 listeners (plain), depth %d "
        "behind TunnelEndpoint / StatisticsEndpoint, plus random histories incl. tunnel-side notification, closed endpoint, wrong "
        "prefix length; (b) task manager: all histories to depth %d over {register coroutine/future, anonymous, cancel, replace, "
        "shutdown, complete, external cancel, loop iteration} plus random histories; (c) every shipped overlay class with default "
        "settings, scripted runs (discovery walk; DHT ping/store/find/store-peer/connect-peer; circuit build, transfer, ping, "
        "destroy; attestation request/verify; identity advertise), unload at every step and at random virtual times on 1-3 roles, "
        "late datagrams (captured + all 256 ids + cells + tunnel side + open transports), API probes, 2 h of virtual time; "
        "(d) real ipv8_service.IPv8: all add_strategy/unload_overlay/on_tick histories to depth %d with stub overlays, and three full "
        "IPv8 instances (default configuration minus bootstrappers, ticker running) with unload_overlay / stop at several virtual "
        "times followed by 90 s of observation; (e) every public coroutine of every overlay class (table from the translator, "
        "fail-closed) started by the application and still pending - peers answering late or not at all - when unload() is "
        "requested at several instants, then 60 s of observation of the endpoint; (f) every overlay class with each shipped "
        "bootstrapper class (fake broadcast socket / fake resolver), bootstrap() then unload() at each of the first loop "
        "iterations: no pending task or timer in the loop, no open bootstrap socket, late datagrams on such a socket. "
        "non-trivial = a listener was called / a task event occurred / the overlay handled or sent a datagram before unload"
        % ((4, 3, 3, 4) if ctx.quick else (6, 5, 5, 6)))
    ctx.coverage["exhaustive"] = False


def replay(path):
    js = json.load(open(path))
    rc = 0
    for v in js.get("violations", []):
        found = replay_case(v["case"])
        print("case:", json.dumps(v["case"], default=str)[:400])
        for key, what in found:
            print("   STILL FAILS  %s :: %s" % (key, what))
            rc = 1
        if not found:
            print("   holds now")
    for c in js.get("cases", []):
        found = replay_case(c)
        print("case:", json.dumps(c, default=str)[:400])
        for key, what in found:
            print("   STILL FAILS  %s :: %s" % (key, what))
            rc = 1
        if not found:
            print("   holds now")
    for b in js.get("no_longer_checks", []):
        print("no longer checks:", b["what"])
        rc = 1
    return rc


# ======================================================================================= (d) the IPv8 service object
IMPORTS_V = ("From Coq Require Import ZArith List Bool.\n"
             "From IPV8V Require Import lib.PyErr model.M11_service gen.G11_unload.\n"
             "Import ListNotations.\nOpen Scope Z_scope.\n")


def sop_coq(op):
    k = op[0]
    if k == "add":
        return "SAdd %d %d" % (op[1], op[2])
    if k == "unload":
        return "SUnloadOverlay %d" % op[1]
    if k == "tick":
        return "STick %s" % zl(op[1])
    return "SStop"


def pl_coq(l):
    return "[" + "; ".join("(%d, %d)" % (a, b) for a, b in l) + "]"


def service_histories(ctx):
    r = ctx.rng("service")
    hist = []
    depth = 4 if ctx.quick else 6
    # exhaustive over: add a strategy to overlay 1 / 2, unload 1 / 2, tick (all due)
    for d in range(1, depth + 1):
        for seq in itertools.product(["a1", "a2", "u1", "u2", "t"], repeat=d):
            if seq[-1] not in ("t", "u1", "u2") or "t" not in seq:
                continue
            ops, n = [], 0
            for x in seq:
                if x[0] == "a":
                    n += 1
                    ops.append(("add", int(x[1]), 10 * int(x[1]) + n))
                elif x[0] == "u":
                    ops.append(("unload", int(x[1])))
                else:
                    ops.append(("tick", [10 * o + i for o in (1, 2) for i in range(1, n + 1)]))
            hist.append(ops)
    for i in range(150 if ctx.quick else 1500):
        ops, sids = [], []
        for j in range(r.choice([5, 9, 14])):
            k = r.choices(["add", "unload", "tick", "stop"], [5, 2, 3, 0.2])[0]
            if k == "add":
                o = r.randrange(1, 4)
                sids.append(100 * o + len(sids))
                ops.append(("add", o, sids[-1]))
            elif k == "unload":
                ops.append(("unload", r.randrange(1, 5)))
            elif k == "tick":
                ops.append(("tick", [s for s in sids if r.random() < 0.8]))
            else:
                ops.append(("stop",))
        hist.append(ops)
    return hist


def stage_service_machine(ctx):
    cases, meta = [], []
    for ops in service_histories(ctx):
        outs, obs, bad = mach.run_service_history(ops)
        ctx.count(("V", tuple((o[0],) + tuple(tuple(x) if isinstance(x, list) else x for x in o[1:]) for o in ops)),
                  nontrivial=any(outs))
        for key, what in bad:
            ctx.violation(key, what, {"kind": "service-machine", "ops": ops})
        cases.append(("(service_unload_steps, [%s])" % "; ".join(sop_coq(o) for o in ops),
                      "([%s], (%s, %s))" % ("; ".join(pl_coq(o) for o in outs), zl(obs[0]), pl_coq(obs[1]))))
        meta.append(ops)
    ctx.sample({"service_history": meta[-1]})
    return cases, meta


def eval_service(ctx, cases, meta):
    mism, errs = coqrun.eval_mismatches(IMPORTS_V, "run_scase", "sobs_eqb", cases, os.path.join(ctx.scratch, "svc"),
                                        ctype="(list sstep * list sop) * sobs", shard=600)
    for e in errs:
        ctx.broke("model evaluation failed (service)", e)
    for i in mism[:10]:
        ctx.broke("correspondence: IPv8 service history (add_strategy / unload_overlay / on_tick / stop) differs between model "
                  "and implementation", json.dumps({"ops": meta[i], "impl": cases[i][1][:600]}))
    ctx.coverage["traces_validated_against_impl"] += len(cases) - len(mism)


def service_jobs(ctx):
    r = ctx.rng("service-system")
    jobs = []
    classes = ["DiscoveryCommunity", "DHTDiscoveryCommunity", "HiddenTunnelCommunity"]
    times = [2.0, 6.3, 11.7] if ctx.quick else [0.4, 2.0, 4.9, 6.3, 9.1, 11.7, 17.3, 31.0]
    for seed in range(1, (1 if ctx.quick else 3) + 1):
        for c in classes:
            for t in times:
                jobs.append({"service": True, "target": c, "unload_time": t, "seed": seed, "mode": "unload_overlay"})
            for i in range(0 if ctx.quick else 6):
                jobs.append({"service": True, "target": c, "unload_time": round(r.uniform(0.0, 40.0), 2), "seed": seed,
                             "mode": "unload_overlay"})
        jobs.append({"service": True, "target": None, "unload_time": 8.0, "seed": seed, "mode": "stop"})
    return jobs


def stage_service_system(ctx, pool):
    from tools.vlib import c11_system as S
    results = pool.map(S.run_service_job, service_jobs(ctx))
    stats = {"runs": 0, "strategy_steps_before": 0, "sends_before": 0}
    for res in results:
        job = res["job"]
        if "crash" in res:
            ctx.broke("IPv8 service run crashed (%s)" % job, res["crash"])
            continue
        stats["runs"] += 1
        stats["strategy_steps_before"] += res["steps_before"]
        stats["sends_before"] += res["sends_before"]
        ctx.count(("VS", job["target"], job["unload_time"], job["seed"], job["mode"]), nontrivial=res["steps_before"] > 0)
        for key, what in res["bad"]:
            ctx.violation(key, "%s [IPv8 service, %s at t=%ss, seed %d]" % (what, job["mode"], job["unload_time"], job["seed"]),
                          {"kind": "service", "job": job})
    ctx.extra["service_runs"] = stats


# ======================================================================================= (e) pending application API calls
def api_jobs(ctx, pubs):
    from tools.vlib import c11_system as S
    D = S.api_drivers()
    times = [0.05, 0.4, 0.9, 1.3, 1.9] if ctx.quick else [0.0, 0.05, 0.2, 0.4, 0.65, 0.9, 1.1, 1.3, 1.65, 1.9, 2.3, 3.0]
    jobs = []
    for cls, drivers in D.items():
        for api, drv in drivers.items():
            if drv is None:
                continue
            for seed in range(1, (1 if ctx.quick else 3) + 1):
                for t in times:
                    jobs.append({"api_job": True, "cls": cls, "api": api, "t": t, "seed": seed})
    # coverage is fail-closed: every public coroutine the translator found must have a driver entry
    for cls, m, routed in pubs or []:
        if m not in D.get(cls, {}):
            ctx.broke("public coroutine %s.%s has no pending-API driver in tools/vlib/c11_system.py" % (cls, m))
    return jobs


def stage_api(ctx, pool, pubs):
    from tools.vlib import c11_system as S
    results = pool.map(S.run_api_job, api_jobs(ctx, pubs), chunksize=4)
    stats = {"runs": 0, "pending_at_unload": 0}
    for res in results:
        job = res["job"]
        if "crash" in res:
            ctx.broke("pending-API run crashed (%s.%s)" % (job["cls"], job["api"]), res["crash"])
            continue
        stats["runs"] += 1
        stats["pending_at_unload"] += int(res["pending_at_unload"])
        ctx.count(("API", job["cls"], job["api"], job["t"], job["seed"]), nontrivial=res["pending_at_unload"])
        for key, what in res["bad"]:
            ctx.violation(key, "%s [unload %.2fs after the call, seed %d]" % (what, job["t"], job["seed"]), {"kind": "api", "job": job})
    ctx.extra["pending_api_runs"] = stats
    ctx.extra["public_coroutines"] = [[c, m, r] for c, m, r in (pubs or [])]


# ======================================================================================= (f) bootstrappers
def boot_jobs(ctx):
    from tools.vlib import c11_system as S
    jobs = []
    for cls in S.shipped_classes():
        for boot in ("UDPBroadcastBootstrapper", "DispersyBootstrapper"):
            for it in range(0, 7 if ctx.quick else 12):
                for seed in range(1, (1 if ctx.quick else 2) + 1):
                    jobs.append({"boot_job": True, "cls": cls, "boot": boot, "iteration": it, "seed": seed, "eager": it % 2 == 1})
    return jobs


def stage_boot(ctx, pool):
    from tools.vlib import c11_system as S
    results = pool.map(S.run_boot_job, boot_jobs(ctx), chunksize=4)
    n = 0
    for res in results:
        job = res["job"]
        if "crash" in res:
            ctx.broke("bootstrapper run crashed (%s + %s)" % (job["cls"], job["boot"]), res["crash"])
            continue
        n += 1
        ctx.count(("BOOT", job["cls"], job["boot"], job["iteration"], job["seed"]), nontrivial=job["iteration"] > 0)
        for key, what in res["bad"]:
            ctx.violation(key, what, {"kind": "boot", "job": job})
    ctx.extra["bootstrapper_runs"] = n
