"""C14 - the DHT routing table stays a valid Kademlia tree.

Stage 0: replay corpus/C14/*.json (witnesses of defects found earlier) through the oracle.
Stage P: props/C14.v (tree_valid, split_only_on_own_path, closest_exact, trie_ops, refresh_id_in_bucket, ...).
Stage C: the real Trie / Bucket / RoutingTable (ipv8/dht/trie.py, routing.py) against the hand model
         coq/model/M14_routing.v evaluated inside Coq (model/M14_harness.v): trie op sequences
         (exhaustive over short keys + random), routing histories of up to 2000 additions with
         clustered identifiers, touch / remove_bad / get / closest / dump, an exhaustive sweep of all
         short addition sequences over a 4-bit identifier space, and Bucket.generate_id with
         controlled random draws.
Oracle : an independent Python statement of the property on the implementation's own objects: the
         trie is walked by hand (prefix-free, complete, ownership, capacity, uniqueness, own path,
         get_bucket), closest_nodes is compared with a brute-force sort of the live nodes by XOR
         distance, the trie against a dict, generate_id against Bucket ownership.
"""
from __future__ import annotations

import glob
import json
import multiprocessing
import os
import time

from tools.tr import tr_routing
from tools.vlib import coqrun, repoenv
from tools.vlib.coqrun import cz

IMPORTS = ("From Coq Require Import ZArith List Bool.\n"
           "From IPV8V Require Import lib.PyErr model.M14_routing model.M14_harness.\n"
           "Import ListNotations.\nOpen Scope Z_scope.\n")

IMPORTS_GEN = ("From Coq Require Import ZArith List Bool.\n"
               "From IPV8V Require Import lib.PyErr model.M14_routing model.M14_harness model.M14_harness_gen.\n"
               "Import ListNotations.\nOpen Scope Z_scope.\n")

W = 160
FULL = (1 << W) - 1
CORPUS = os.path.join(repoenv.VERIF, "corpus", "C14")


# ---------------------------------------------------------------------------- implementation harness
_CLS = {}


def impl():
    """Lazily import the implementation and build the harness-side Node subclass."""
    if _CLS:
        return _CLS
    from ipv8.dht import routing, trie
    from ipv8.keyvault.keys import PublicKey
    from ipv8.messaging.interfaces.udp.endpoint import UDPv4Address

    class FakeKey(PublicKey):
        def __init__(self, raw):
            self.raw = raw

        def key_to_bin(self):
            return self.raw

        def has_secret_key(self):
            return False

        def verify(self, signature, msg):
            return False

        def get_signature_length(self):
            return 0

    FakeKey.__abstractmethods__ = frozenset()   # whatever else the interface declares is never called here

    class HNode(routing.Node):
        """A Node whose id, rtt and failure count are chosen by the harness (ids are arbitrary bit strings,
        not derived from an address); one public key per id."""

        def __init__(self, nid, tag, addr=1, rtt=0, failed=0):
            self._id = nid.to_bytes(20, "big")
            super().__init__(FakeKey(b"fake-key:" + self._id), UDPv4Address("1.1.1.1", addr))
            self.tag = tag
            self.rtt = rtt
            self.failed = failed
            # GOOD and UNKNOWN nodes both occur (the status must not influence which nodes are nearest)
            self.last_response = time.time() if tag % 3 == 0 else 0

        @property
        def id(self):
            return self._id

    _CLS.update(routing=routing, trie=trie, HNode=HNode, UDPv4Address=UDPv4Address)
    return _CLS


def rec(n):
    return None if n is None else (n.tag, n.address[1], n.rtt, n.failed)


def bits_of(i):
    return format(i, "0160b")


def walk_trie(t):
    """(key, value) of every stored value, by hand over the node objects (not through Trie's own methods)."""
    out = []

    def go(node, key):
        if node.value is not None:
            out.append((key, node.value))
        for ch, sub in node.children.items():
            go(sub, key + ch)
    go(t.root, "")
    return out


def new_table(own, cap):
    c = impl()
    rt = c["routing"].RoutingTable(own.to_bytes(20, "big"))
    rt.trie[""].max_size = cap
    return rt


# ---------------------------------------------------------------------------- oracle (spec in Python)
def check_table(rt, cap, own):
    """The property text, evaluated on the implementation's objects. Returns [(key, what)]."""
    bad = []
    items = walk_trie(rt.trie)
    keys = [k for k, _ in items]
    own_b = bits_of(own)
    if len(set(keys)) != len(keys):
        bad.append(("tree/duplicate-bucket-key", "a bucket key occurs twice"))
    for k in keys:
        if len(k) > W:
            bad.append(("tree/prefix-too-long", "bucket prefix of %d bits" % len(k)))
    sk = sorted(keys)
    for a, b in zip(sk, sk[1:]):   # in sorted order a key is immediately followed by one of its extensions, if any
        if b.startswith(a) and a != b:
            bad.append(("tree/not-prefix-free", "bucket %r lies below bucket %r" % (b, a)))
            break
    # complete: prefix-free keys cover the space iff the sizes of their sub-spaces add up to 2^W
    if sum(1 << (W - len(k)) for k in keys if len(k) <= W) != 1 << W:
        bad.append(("tree/not-complete", "buckets do not cover the identifier space: %r" % sorted(keys)[:12]))
    seen = {}
    for k, b in items:
        if b.prefix_id != k:
            bad.append(("tree/bucket-key-mismatch", "bucket with prefix %r stored under %r" % (b.prefix_id, k)))
        if len(b.nodes) > cap:
            bad.append(("bucket/over-capacity", "bucket %r holds %d nodes (capacity %d)" % (k, len(b.nodes), cap)))
        if k != "" and not own_b.startswith(k[:-1]):
            bad.append(("split/off-own-path", "bucket %r was produced by splitting %r, which does not hold our own id"
                        % (k, k[:-1])))
        for key, n in b.nodes.items():
            nb = format(int.from_bytes(n.id, "big"), "0160b")
            if key != n.id:
                bad.append(("bucket/dict-key-mismatch", "node stored under a key that is not its id"))
            if len(n.id) != 20 or not nb.startswith(k):
                bad.append(("bucket/node-not-owned", "node %s sits in bucket %r" % (n.id.hex(), k)))
            if n.id in seen:
                bad.append(("tree/duplicate-node", "id %s in buckets %r and %r" % (n.id.hex(), seen[n.id], k)))
            seen[n.id] = k
    return bad


def check_get_bucket(rt, ids):
    bad = []
    items = walk_trie(rt.trie)
    for i in ids:
        ib = bits_of(i)
        owners = [b for k, b in items if ib.startswith(k)]
        try:
            got = rt.get_bucket(i.to_bytes(20, "big"))
        except Exception as e:   # noqa
            bad.append(("get_bucket/raises", "get_bucket(%040x) raised %s" % (i, type(e).__name__)))
            continue
        if len(owners) != 1 or got is not owners[0]:
            bad.append(("get_bucket/not-the-owner", "get_bucket(%040x) returned bucket %r; owners by prefix: %r"
                        % (i, got.prefix_id, [b.prefix_id for b in owners])))
    return bad


def brute_closest(rt, target, k, excl):
    live = []
    for _, b in walk_trie(rt.trie):
        for n in b.nodes.values():
            if n.failed < 2 and (excl is None or int.from_bytes(n.id, "big") != excl):
                live.append((int.from_bytes(n.id, "big") ^ target, n.tag))
    live.sort()
    return [t for _, t in live[:k]]


def impl_closest(rt, target, k, excl):
    c = impl()
    ex = None if excl is None else c["HNode"](excl, -1)
    return [n.tag for n in rt.closest_nodes(target.to_bytes(20, "big"), max_nodes=k, exclude_node=ex)]


# ---------------------------------------------------------------------------- routing histories
M64 = (1 << 64) - 1


def xs64(x):
    x = (x ^ (x << 13)) & M64
    x ^= x >> 7
    return (x ^ (x << 17)) & M64


def G(seed):
    x1 = xs64((seed & M64) | (1 << 40))
    x2 = xs64(x1)
    x3 = xs64(x2)
    return (((x1 << 64) | x2) << 64) | x3


def resolve(spec, centers):
    """identifier described by ("raw", z) or ("near", c, L, seed): first L bits of centre c, the opposite of
    its next bit, then pseudo-random bits (same function as M14_harness.resolve)"""
    if spec is None:
        return None
    if spec[0] == "raw":
        return spec[1]
    _, c, L, seed = spec
    ctr = centers[c]
    if L >= W:
        return ctr
    low = W - L - 1
    return ((ctr >> (low + 1)) << (low + 1)) | ((1 - ((ctr >> low) & 1)) << low) | (G(seed) & ((1 << low) - 1))


def apply_op(rt, op, centers):
    c = impl()
    k = op[0]
    if k == "add":
        _, spec, tag, addr, rtt, failed = op
        return ("node", rec(rt.add(c["HNode"](resolve(spec, centers), tag, addr, rtt, failed))))
    if k == "rmbad":
        return ("tags", sorted(n.tag for n in rt.remove_bad_nodes()))
    if k == "touch":
        n = rt.get(resolve(op[1], centers).to_bytes(20, "big"))
        if n is not None:
            n.rtt, n.failed = op[2], op[3]
        return ("num", 0)
    if k == "get":
        return ("node", rec(rt.get(resolve(op[1], centers).to_bytes(20, "big"))))
    if k == "closest":
        return ("tags", impl_closest(rt, resolve(op[1], centers), op[2], resolve(op[3], centers)))
    if k == "dist":
        return ("num", c["routing"].distance(resolve(op[1], centers).to_bytes(20, "big"), resolve(op[2], centers).to_bytes(20, "big")))
    if k == "dump":
        out = []
        for key, b in sorted(walk_trie(rt.trie), key=lambda kv: kv[0]):
            out.append((len(key), int(key, 2) if key else 0, [rec(n) for n in b.nodes.values()]))
        return ("state", out)
    raise ValueError(k)


EXN = {"KeyError": "KeyError", "IndexError": "IndexError", "ValueError": "ValueError", "TypeError": "TypeError",
       "RecursionError": "OutOfFuel", "ZeroDivisionError": "ZeroDivisionError", "AssertionError": "AssertionError"}


def run_history(args):
    """Run one history on the implementation; oracle at checkpoints. Returns (results, violations, stats)."""
    cap, centers, ops, seed, checks = args
    import random
    r = random.Random(seed)
    own = centers[0]
    rt = new_table(own, cap)
    results, viol = [], []
    stats = {"splits": 0, "max_depth": 0, "rejected": 0, "updates": 0, "closest": 0, "oracle_closest": 0, "nodes_max": 0}
    nb = 1
    known = []
    deep_probes = 0
    for idx, op in enumerate(ops):
        if op[0] == "rmbad":
            before = [(n.tag, n.failed >= 2) for _, b in walk_trie(rt.trie) for n in b.nodes.values()]
        try:
            res = apply_op(rt, op, centers)
        except Exception as e:   # noqa
            results.append(("exn", EXN.get(type(e).__name__, "RuntimeError")))
            viol.append(("op/%s-raises" % op[0], "%s raised %s: %s" % (op[0], type(e).__name__, e), idx))
            break
        results.append(res)
        if op[0] == "add":
            nid = resolve(op[1], centers)
            known.append(nid)
            if res[1] is None:
                stats["rejected"] += 1
            elif res[1][0] != op[2]:
                stats["updates"] += 1
            # what add returned is what the table now holds under that id (None: the id is not in the table)
            holder = [n for _, b in walk_trie(rt.trie) for n in b.nodes.values() if int.from_bytes(n.id, "big") == nid] \
                if (idx in checks or len(ops) <= 400) else None
            if holder is not None and [rec(n) for n in holder] != ([res[1]] if res[1] is not None else []):
                viol.append(("add/result-not-in-table", "add(%040x) returned %s but the table holds %s under that id"
                             % (nid, res[1], [rec(n) for n in holder]), idx))
        if op[0] == "rmbad":
            after = sorted(n.tag for _, b in walk_trie(rt.trie) for n in b.nodes.values())
            if res[1] != sorted(t for t, bad in before if bad) or after != sorted(t for t, bad in before if not bad):
                viol.append(("remove_bad/not-exactly-the-bad-nodes", "remove_bad_nodes removed tags %s; bad before: %s; kept: %s"
                             % (res[1], sorted(t for t, bad in before if bad), after), idx))
        if op[0] == "closest":
            stats["closest"] += 1
            t, ex = resolve(op[1], centers), resolve(op[3], centers)
            want = brute_closest(rt, t, op[2], ex)
            if res[1] != want:
                viol.append(("closest/not-the-k-nearest", "closest_nodes(%040x, k=%d, exclude=%s) returned tags %s, "
                             "the k nearest live nodes are %s" % (t, op[2], ex, res[1], want), idx))
        nb2 = len(rt.trie.values()) if op[0] == "add" else nb
        full = nb2 != nb or idx in checks or idx == len(ops) - 1
        if nb2 != nb:
            stats["splits"] += nb2 - nb
            nb = nb2
        if full:
            for key, what in check_table(rt, cap, own):
                viol.append((key, what, idx))
        if idx in checks or idx == len(ops) - 1:
            items = walk_trie(rt.trie)
            stats["max_depth"] = max(stats["max_depth"], max(len(k) for k, _ in items))
            nodes = [int.from_bytes(n.id, "big") for _, b in items for n in b.nodes.values()]
            stats["nodes_max"] = max(stats["nodes_max"], len(nodes))
            probe = [own, own ^ 1, 0, FULL] + r.sample(known, min(len(known), 12)) + [r.getrandbits(W) for _ in range(8)]
            for key, what in check_get_bucket(rt, probe):
                viol.append((key, what, idx))
            targets = probe + r.sample(nodes, min(len(nodes), 10)) + [own ^ (1 << r.randrange(W)) ^ r.getrandbits(r.randrange(1, W))
                                                                    for _ in range(16)]
            live = [(int.from_bytes(n.id, "big"), n.tag) for _, b in items for n in b.nodes.values() if n.failed < 2]
            # closest_nodes of the implementation is quadratic in the depth of the tree: fewer probes on deep trees
            shallow = len(items) <= 24
            ks = range(1, 21) if shallow else (1, 3, 8, 20)
            if not shallow:
                deep_probes += 1
                if deep_probes > 1 and idx != len(ops) - 1:
                    targets = []
            for t in (targets[:50] if shallow else targets[:3] + targets[-4:]):
                excl = r.choice([None, None, r.choice(nodes) if nodes else None])
                order = [tag for _, tag in sorted((i ^ t, tag) for i, tag in live if i != excl)]
                for k in ks:
                    stats["oracle_closest"] += 1
                    try:
                        got = impl_closest(rt, t, k, excl)
                    except Exception as e:   # noqa
                        viol.append(("closest/raises", "closest_nodes raised %s" % type(e).__name__, idx))
                        break
                    want = order[:k]
                    if got != want:
                        viol.append(("closest/not-the-k-nearest", "closest_nodes(%040x, k=%d, exclude=%s) returned tags %s, "
                                     "the k nearest live nodes are %s" % (t, k, excl, got, want), idx))
                        break
        if len(viol) > 20:
            break
    return results, viol, stats


def gen_history(r, n_ops, cap):
    """A history of about n_ops operations: additions with random, clustered (long common prefix with
    our own id) and repeated identifiers, status changes, bad-node removal, lookups."""
    own = r.choice([r.getrandbits(W), r.getrandbits(W), 0, FULL, r.getrandbits(W) & ~0xFFFF])
    centers = [own] + [r.getrandbits(W) for _ in range(3)] + [own ^ (1 << r.randrange(W)) ^ r.getrandbits(20)]
    style = r.choice(["uniform", "uniform", "uniform", "mixed", "mixed", "band", "offpath", "deep"])
    band = r.randrange(0, W - 30)
    specs = []
    ops = []
    tag = 0
    # closest_nodes on a large table is expensive on both sides (quadratic walk in the implementation, set union and
    # sort in the model): long histories carry fewer of them
    p_closest = 0.105 if n_ops <= 400 else 0.05 if n_ops <= 900 else 0.025

    def seed():
        return r.getrandbits(32)

    def new_spec():
        u = r.random()
        if style == "uniform" or (style == "mixed" and u < 0.4):
            return ("near", r.randrange(len(centers)), 0, seed()) if u > 0.02 else ("raw", r.getrandbits(W))
        if style == "offpath" and u < 0.8:
            return ("near", r.randrange(1, len(centers)), W - 1 - r.choice([8, 16, 40]), seed())
        if style == "deep" or u < 0.8:
            # shares exactly L leading bits with our own id (adversarial clustering around own)
            if style == "deep":
                L = r.choice([W - 1, W - 2, W - 3, W - 4, r.randrange(W - 12, W), r.randrange(W), r.randrange(W)])
            elif style == "band":
                L = band + r.randrange(30)
            else:
                L = min(W - 1, int(r.expovariate(0.12)))
            return ("near", 0, L, seed())
        if specs and u < 0.9:
            base = r.choice(specs)
            if base[0] == "near":
                if base[1] == 0 and style != "deep":        # siblings of a node near our own id, not deeper ones
                    return ("near", 0, base[2], seed())
                return ("near", base[1], max(base[2], W - 1 - r.choice([0, 1, 3, 8])), seed()) if r.random() < 0.5 else \
                       ("near", base[1], base[2], base[3] ^ 1)
        return ("near", r.randrange(len(centers)), r.choice([0, 1, 2, 5, 30]), seed())

    def some_spec():
        u = r.random()
        if specs and u < 0.6:
            return r.choice(specs)
        if u < 0.8:
            return new_spec()
        return r.choice([("near", 0, W, 0), ("raw", own ^ 1), ("raw", 0), ("raw", FULL), ("raw", r.getrandbits(W)),
                         ("near", r.randrange(len(centers)), W, 0)])

    for _ in range(n_ops):
        u = r.random()
        if u < 0.74 or not specs:
            sp = r.choice(specs) if (specs and r.random() < 0.08) else new_spec()
            specs.append(sp)
            tag += 1
            rtt = r.choice([0, 0, r.randrange(1, 50), r.randrange(1, 1000), r.randrange(1, 1000), -r.randrange(1, 100)
                            if r.random() < 0.2 else r.randrange(1, 10)])
            ops.append(("add", sp, tag, r.randrange(1, 65536), rtt, r.choice([0, 0, 0, 0, 1, 2, 3])))
        elif u < 0.83:
            ops.append(("touch", some_spec(), r.choice([0, r.randrange(1, 1000), r.randrange(1, 20)]), r.choice([0, 0, 1, 2, 2, 5])))
        elif u < 0.85:
            ops.append(("rmbad",))
        elif u < 0.88:
            ops.append(("get", some_spec()))
        elif u < 0.88 + p_closest:
            ops.append(("closest", some_spec(), r.randrange(1, 21), r.choice([None, None, some_spec()])))
        elif u < 0.985:
            i = r.choice(specs) if (specs and r.random() < 0.08) else new_spec()
            specs.append(i)
            tag += 1
            ops.append(("add", i, tag, r.randrange(1, 65536), r.randrange(0, 300), r.choice([0, 0, 0, 2])))
        elif u < 0.99:
            ops.append(("dist", some_spec(), some_spec()))
        elif u < 0.992:
            ops.append(("dump",))
    ops.append(("dump",))
    return centers, ops


def nrec_coq(t):
    return "(%s, %s, %s, %s)" % tuple(cz(x) for x in t)


def spec_coq(sp):
    if sp[0] == "raw":
        return "(Raw %s)" % cz(sp[1])
    return "(Near %d %d %d)" % (sp[1], sp[2], sp[3])


def op_coq(op):
    k = op[0]
    if k == "add":
        return "HAdd %s %s" % (spec_coq(op[1]), " ".join(cz(x) for x in op[2:]))
    if k == "rmbad":
        return "HRemoveBad"
    if k == "touch":
        return "HTouch %s %s %s" % (spec_coq(op[1]), cz(op[2]), cz(op[3]))
    if k == "get":
        return "HGet %s" % spec_coq(op[1])
    if k == "closest":
        return "HClosest %s %s %s" % (spec_coq(op[1]), cz(op[2]), "None" if op[3] is None else "(Some %s)" % spec_coq(op[3]))
    if k == "dist":
        return "HDist %s %s" % (spec_coq(op[1]), spec_coq(op[2]))
    return "HDump"


def res_coq(res):
    k = res[0]
    if k == "node":
        return "RNode None" if res[1] is None else "RNode (Some %s)" % nrec_coq(res[1])
    if k == "tags":
        return "RTags [%s]" % ";".join(cz(x) for x in res[1])
    if k == "num":
        return "RNum %s" % cz(res[1])
    if k == "state":
        return "RState [%s]" % ";".join("(%d, %d, [%s])" % (a, b, ";".join(nrec_coq(x) for x in ns)) for a, b, ns in res[1])
    return "RExn %s" % res[1]


def hist_case_coq(cap, centers, ops, results):
    return ("(%d, %d, [%s], [%s])" % (W, cap, ";".join(cz(c) for c in centers), "; ".join(op_coq(o) for o in ops[:len(results)])),
            "[%s]" % "; ".join(res_coq(x) for x in results))


def spec_json(sp):
    if sp is None:
        return None
    return ["raw", "%x" % sp[1]] if sp[0] == "raw" else list(sp)


def spec_from_json(j):
    if j is None:
        return None
    return ("raw", int(j[1], 16)) if j[0] == "raw" else tuple(j)


SPEC_POS = {"add": (1,), "touch": (1,), "get": (1,), "closest": (1, 3), "dist": (1, 2)}


def ops_json(ops):
    return [[spec_json(x) if i in SPEC_POS.get(op[0], ()) else x for i, x in enumerate(op)] for op in ops]


def ops_from_json(js):
    return [tuple(spec_from_json(x) if i in SPEC_POS.get(op[0], ()) else x for i, x in enumerate(op)) for op in js]


def hist_json(cap, centers, ops):
    return {"kind": "hist", "cap": cap, "centers": ["%x" % c for c in centers], "ops": ops_json(ops)}


def shrink_history(cap, centers, ops, key):
    """Greedy removal of operations while the same violation key persists (bounded effort)."""
    def fails(o):
        _, viol, _ = run_history((cap, centers, o, 1, set()))
        return any(v[0] == key for v in viol)
    cur = list(ops)
    # cut after the failing operation first
    _, viol, _ = run_history((cap, centers, cur, 1, set()))
    hit = [v[2] for v in viol if v[0] == key]
    if hit:
        cur = cur[:hit[0] + 1]
    t0 = time.time()
    chunk = max(1, len(cur) // 2)
    while chunk >= 1 and time.time() - t0 < 20:
        i = 0
        while i < len(cur) and time.time() - t0 < 20:
            cand = cur[:i] + cur[i + chunk:]
            if cand and fails(cand):
                cur = cand
            else:
                i += chunk
        chunk //= 2
    return cur


# ---------------------------------------------------------------------------- trie histories
def key_code(k):
    return int("1" + k, 2)


def run_trie_impl(ops):
    """ops on a real Trie; returns (results, violations) - the oracle is a plain dict."""
    c = impl()
    t = c["trie"].Trie("01")
    ref = {}
    results, viol = [], []
    for idx, op in enumerate(ops):
        k = op[0]
        key = op[1] if len(op) > 1 else None
        try:
            if k == "set":
                t[key] = op[2]
                got = ("unit",)
                ref[key] = op[2]
                want = got
            elif k == "del":
                want = ("unit",) if key in ref else ("exn", "KeyError")
                ref.pop(key, None)
                del t[key]
                got = ("unit",)
            elif k == "get":
                want = ("val", ref[key]) if key in ref else ("exn", "KeyError")
                got = ("val", t[key])
            elif k == "lpi":
                # longest stored non-empty prefix of key (the root's own value is never reported by the code;
                # RoutingTable relies on `or self.trie[""]`)
                cands = [p for p in ref if p and key.startswith(p)]
                want = ("item", key_code(max(cands, key=len)), ref[max(cands, key=len)]) if cands else ("exn", "KeyError")
                p, v = t.longest_prefix_item(key)
                got = ("item", key_code(p), v)
            elif k == "suffixes":
                want = ("list", sorted(key_code(p[len(key):]) for p in ref if p.startswith(key)))
                s = t.suffixes(key)
                got = ("list", sorted(key_code(x) for x in s))
                if len(set(s)) != len(s):
                    viol.append(("trie/suffixes-duplicate", "suffixes(%r) = %r" % (key, s), idx))
            else:
                want = ("list", sorted(ref.values()))
                got = ("list", sorted(t.values()))
        except KeyError:
            got = ("exn", "KeyError")
        except Exception as e:   # noqa
            got = ("exn", EXN.get(type(e).__name__, "RuntimeError"))
        results.append(got)
        if got != want:
            viol.append(("trie/%s-wrong" % k, "after %r: %s(%r) gave %r, a dict gives %r" % (ops[:idx], k, key, got, want), idx))
        # structural: no value-less leaf may remain below the root (pruning), stored values match the dict
        stored = dict(walk_trie(t))
        if stored != ref:
            viol.append(("trie/content-differs", "after %r the trie holds %r, a dict holds %r" % (ops[:idx + 1], stored, ref), idx))

        def dangling(node, root):
            if not node.children:
                return node.value is None and not root
            return any(dangling(ch, False) for ch in node.children.values())
        if dangling(t.root, True):
            viol.append(("trie/unpruned-leaf", "after %r a value-less leaf remains" % (ops[:idx + 1],), idx))
        if len(viol) > 5:
            break
    return results, viol


def top_coq(op):
    k = op[0]
    if k == "set":
        return "TSet %d %d" % (key_code(op[1]), op[2])
    if k == "values":
        return "TValues"
    return "%s %d" % ({"del": "TDel", "get": "TGet", "lpi": "TLpi", "suffixes": "TSuffixes"}[k], key_code(op[1]))


def tres_coq(x):
    k = x[0]
    if k == "unit":
        return "TRUnit"
    if k == "val":
        return "TRVal %d" % x[1]
    if k == "item":
        return "TRItem %d %d" % (x[1], x[2])
    if k == "list":
        return "TRList [%s]" % ";".join(str(v) for v in x[1])
    return "TRExn %s" % x[1]


def all_keys(maxlen):
    out = [""]
    for n in range(1, maxlen + 1):
        out += [format(i, "0%db" % n) for i in range(1 << n)]
    return out


def trie_exhaustive(depth, maxlen):
    """every sequence of `depth` set/del operations over all keys of length <= maxlen, each followed by the
    same observation tail"""
    keys = all_keys(maxlen)
    alphabet = [("set", k, 1 + i) for i, k in enumerate(keys)] + [("del", k) for k in keys]
    tail = [("get", k) for k in keys] + [("lpi", "0" * (maxlen + 1)), ("lpi", "1" * (maxlen + 1)), ("lpi", "01"[:maxlen] + "10"),
                                          ("suffixes", ""), ("suffixes", "0"), ("suffixes", "1"), ("values",)]
    seqs = [[]]
    for _ in range(depth):
        seqs = [s + [a] for s in seqs for a in alphabet]
    return [s + tail for s in seqs]


def gen_trie_ops(r, n):
    maxlen = r.choice([2, 3, 5, 8])
    pool = [format(r.getrandbits(L), "0%db" % L) if L else "" for L in [r.randrange(maxlen + 1) for _ in range(r.choice([3, 6, 12]))]]
    ops = []
    for _ in range(n):
        u = r.random()
        key = r.choice(pool) if r.random() < 0.8 else format(r.getrandbits(maxlen), "0%db" % maxlen)[:r.randrange(maxlen + 1)]
        if u < 0.35:
            ops.append(("set", key, r.randrange(1, 100)))
        elif u < 0.6:
            ops.append(("del", key))
        elif u < 0.7:
            ops.append(("get", key))
        elif u < 0.8:
            ops.append(("lpi", key + format(r.getrandbits(3), "03b")))
        elif u < 0.93:
            ops.append(("suffixes", key))
        else:
            ops.append(("values",))
    return ops


# ---------------------------------------------------------------------------- generate_id
def gen_id_impl(prefix, draw):
    """Bucket(prefix).generate_id() with the random module of routing.py replaced by a stub whose draw is
    chosen by the harness: draw in {"lo", "hi", fraction}. Returns (id int, value drawn, (lo, hi) requested)."""
    c = impl()
    routing = c["routing"]
    seen = {}

    class Stub:
        @staticmethod
        def randint(lo, hi):
            v = lo if draw == "lo" else hi if draw == "hi" else lo + (hi - lo) * draw[0] // draw[1]
            seen["v"], seen["range"] = v, (lo, hi)
            return v

        @staticmethod
        def getrandbits(n):
            hi = (1 << n) - 1
            v = 0 if draw == "lo" else hi if draw == "hi" else hi * draw[0] // draw[1]
            seen["v"], seen["range"] = v, (0, hi)
            return v

        @staticmethod
        def randrange(a, b=None):
            lo, hi = (0, a - 1) if b is None else (a, b - 1)
            return Stub.randint(lo, hi)

    orig = routing.random
    routing.random = Stub
    try:
        b = routing.Bucket(prefix)
        out = b.generate_id()
        owned = b.owns(out) if len(out) == 20 else False
    finally:
        routing.random = orig
    return out, owned, seen.get("v"), seen.get("range")


# ---------------------------------------------------------------------------- exhaustive 4-bit sweep
EXH_RTT = [0, 10, 25, 60, 5, 0, 100, 7, 20, 3, 0, 50, 9, 12, 0, 200]
EXH_BAD = (3, 9)


def mix(h, x):
    return xs64(h ^ (x + 2) ^ 11400714819323198485)


def exh_pool():
    return [((j << (W - 4)), j, j + 1, EXH_RTT[j], 2 if j in EXH_BAD else 0) for j in range(16)]


def exh_fp(rt, node_id, res):
    h = 1
    for key, b in sorted(walk_trie(rt.trie), key=lambda kv: kv[0]):
        h = mix(mix(mix(h, 77), len(key)), int(key, 2) if key else 0)
        for n in b.nodes.values():
            h = mix(mix(h, n.tag), n.address[1])
    h = mix(h, res[0] if res is not None else -1)
    h = mix(h, 5)
    for t in impl_closest(rt, node_id, 3, None):
        h = mix(h, t)
    return h


def exh_worker(args):
    """all sequences starting with pool[first], `depth` further additions; digest + oracle on every state"""
    cap, own, first, depth = args
    pool = exh_pool()
    c = impl()
    total, count, viol = 0, 0, []

    def replay(seq):
        rt = new_table(own, cap)
        res = None
        for j in seq:
            res = rec(rt.add(c["HNode"](*pool[j])))
        return rt, res

    def go(seq, d):
        nonlocal total, count
        rt, res = replay(seq)
        count += 1
        if len(viol) < 5:
            for key, what in check_table(rt, cap, own):
                viol.append((key, what, list(seq)))
            nid = pool[seq[-1]][0]
            for k in (1, 2, 3, 5):
                got, want = impl_closest(rt, nid, k, None), brute_closest(rt, nid, k, None)
                if got != want:
                    viol.append(("closest/not-the-k-nearest", "closest(%x, %d) = %s, nearest are %s" % (nid >> (W - 4), k, got, want), list(seq)))
        acc = exh_fp(rt, pool[seq[-1]][0], res)
        if d > 0:
            for j in range(16):
                acc = (acc + go(seq + [j], d - 1)) & M64
        return acc
    total = go([first], depth)
    return total, count, viol


# ---------------------------------------------------------------------------- corpus
def corpus_cases():
    out = []
    for p in sorted(glob.glob(os.path.join(CORPUS, "*.json"))):
        try:
            js = json.load(open(p))
        except Exception:   # noqa
            continue
        for c in js.get("cases", [js] if "kind" in js else []):
            out.append((os.path.basename(p), c))
    return out


def eval_case(c):
    """Run one recorded case on the implementation through the oracle; returns [(key, what)]."""
    kind = c["kind"]
    if kind == "genid":
        draw = c["draw"] if isinstance(c["draw"], str) else tuple(c["draw"])
        try:
            out, owned, v, rng = gen_id_impl(c["prefix"], draw)
        except Exception as e:   # noqa
            return [("generate_id/raises", "Bucket(%r).generate_id() raised %s" % (c["prefix"], type(e).__name__))]
        if not owned:
            return [("generate_id/outside-bucket", "Bucket(%r).generate_id() with draw %r of randint%r gave %s, not owned by the bucket"
                     % (c["prefix"], v, rng, out.hex()))]
        return []
    if kind == "trie":
        ops = [tuple(o) for o in c["ops"]]
        _, viol = run_trie_impl(ops)
        return [(k, w) for k, w, _ in viol]
    if kind == "hist":
        ops = ops_from_json(c["ops"])
        _, viol, _ = run_history((c["cap"], [int(x, 16) for x in c["centers"]], ops, 1, set(range(0, len(ops), 7))))
        return [(k, w) for k, w, _ in viol]
    if kind == "exh":
        cap, own, seq = c["cap"], int(c["own"], 16), c["seq"]
        pool = exh_pool()
        ops = [("add", ("raw", pool[j][0])) + pool[j][1:] for j in seq]
        _, viol, _ = run_history((cap, [own], ops, 1, set(range(len(ops)))))
        return [(k, w) for k, w, _ in viol]
    return [("corpus/unknown-kind", kind)]


def shrink_case(c, key, budget=10.0):
    """Greedy one-at-a-time removal of operations from a trie / sweep witness while the same violation remains."""
    field = "ops" if c["kind"] == "trie" else "seq" if c["kind"] == "exh" else None
    if field is None:
        return c
    cur = dict(c)
    t0 = time.time()
    i = 0
    while i < len(cur[field]) and time.time() - t0 < budget:
        cand = dict(cur)
        cand[field] = cur[field][:i] + cur[field][i + 1:]
        try:
            still = cand[field] and any(k == key for k, _ in eval_case(cand))
        except Exception:   # noqa
            still = False
        if still:
            cur = cand
        else:
            i += 1
    return cur


def translate(ctx):
    """stage G of the extension: routing.py -> coq/gen/G14_routing.v; None (reported as broken) when the
    translator does not recognise the source"""
    try:
        text = tr_routing.write()
        ctx.extra.setdefault("generated", {})["gen/G14_routing.v"] = len(text)
        return text
    except Exception as e:   # tr_expr.Unsupported or anything else: fail closed
        ctx.broke("translator tr_routing aborted", e)
        try:
            os.remove(tr_routing.DEST)     # nothing may be proved or evaluated against a stale translation
        except OSError:
            pass
        return None


# ---------------------------------------------------------------------------- the check
def run(ctx):
    impl()
    # ---- stage 0: corpus
    for name, c in corpus_cases():
        for key, what in eval_case(c)[:3]:
            ctx.violation(key, "corpus %s: %s" % (name, what), c)
        ctx.count(("corpus", name, json.dumps(c, sort_keys=True)))

    # ---- stage P
    ctx.proofs()
    # extension: the functions of routing.py translated from the AST (gen/G14_routing.v), refinement in props/C14x.v
    gtext = translate(ctx)
    gen_ok = gtext is not None and ctx.proofs(part="C14x")
    ctx.extra["generated_model_usable"] = bool(gen_ok)
    ctx.coverage["trusted_base"] = [
        "Coq 8.16.1 kernel (coqc, vm_compute); no axioms (Print Assumptions: closed)",
        "hand model coq/model/M14_routing.v of trie.py and Bucket/RoutingTable (routing.py), tied by this run's correspondence",
        "translator tools/tr/tr_routing.py (routing.py -> gen/G14_routing.v) and the runtime vocabulary coq/model/M14_routing_gen.v "
        "(dict/set/string/sort/trie-alias semantics, oracles for clock, contact times and randint); trie.py itself stays a hand model",
        "harness Node subclass with settable id/rtt/failed (one public key per id); Node.status is BAD iff failed >= 2",
        "bytes <-> bit-list conversion of identifiers in the harness (format(int, '0160b'))",
    ]
    ctx.assumptions = ["identifiers are 20 bytes (the code formats them with '0160b')", "Bucket.max_size >= 1",
                       "integer round-trip times (the float division n.rtt / node.rtt >= 2.0 is modelled on integers)",
                       "one Node object per identifier inside a table (Peer equality is by public key)"]
    pool = multiprocessing.Pool(14)
    try:
        _run_stage_c(ctx, pool, gen_ok)
    finally:
        pool.terminate()
        pool.join()


def _trace(ctx, what):
    if os.environ.get("VERIF_TRACE"):
        import sys
        print("[c14 %6.1fs] %s" % (time.time() - ctx.t0, what), file=sys.stderr, flush=True)


def _run_stage_c(ctx, pool, gen_ok=False):
    r = ctx.rng("main")
    scratch = ctx.scratch
    _trace(ctx, "stage C starts")

    # ---- generate_id: every prefix length, extreme and random draws
    gen_cases, n_gen_bad = [], 0
    prefixes = [""] + [format(r.getrandbits(L), "0%db" % L) for L in list(range(1, 161))] + ["1011", "0" * 160, "1" * 160, "1" * 159]
    for p in prefixes:
        for draw in ("lo", "hi", (r.randrange(1, 1000), 1000), (r.randrange(1, 1000), 1000)):
            try:
                out, owned, v, rng = gen_id_impl(p, draw)
            except Exception as e:   # noqa
                ctx.violation("generate_id/raises", "Bucket(%r).generate_id() raised %s" % (p, type(e).__name__),
                              {"kind": "genid", "prefix": p, "draw": draw})
                continue
            ctx.count(("genid", p, draw), nontrivial=len(p) > 0)
            if not owned:
                n_gen_bad += 1
                if n_gen_bad <= 3:
                    ctx.violation("generate_id/outside-bucket",
                                  "Bucket(%r).generate_id() with draw %r of randint%r gave %s, which the bucket does not own"
                                  % (p, v, rng, out.hex()), {"kind": "genid", "prefix": p, "draw": draw})
            if v is not None:
                gen_cases.append(("(%d, %d, %s)" % (W, key_code(p), cz(v)), cz(int.from_bytes(out, "big"))))
    ctx.sample({"generate_id": {"prefix": "1011", "draw": "hi", "impl": gen_id_impl("1011", "hi")[0].hex()}})
    mism, errs = coqrun.eval_mismatches(IMPORTS, "run_genid", "Z.eqb", gen_cases, os.path.join(scratch, "gid"),
                                        ctype="(Z * Z * Z) * Z", shard=400)
    for e in errs:
        ctx.broke("model evaluation failed (generate_id)", e)
    for i in mism[:5]:
        ctx.broke("correspondence: generate_id differs between model and implementation", gen_cases[i])
    ctx.coverage["traces_validated_against_impl"] += len(gen_cases) - len(mism)
    if gen_ok:
        mism, errs = coqrun.eval_mismatches(IMPORTS_GEN, "run_genid_gen", "Z.eqb", gen_cases, os.path.join(scratch, "gidg"),
                                            ctype="(Z * Z * Z) * Z", shard=400)
        for e in errs:
            ctx.broke("generated model evaluation failed (generate_id)", e)
        for i in mism[:5]:
            ctx.broke("correspondence: generate_id differs between the GENERATED model and the implementation", gen_cases[i])
        ctx.coverage["traces_validated_against_impl"] += len(gen_cases) - len(mism)

    _trace(ctx, "generate_id done (%d cases)" % len(gen_cases))
    # ---- trie: exhaustive short sequences + random
    tcases = trie_exhaustive(3 if ctx.quick else 4, 2) + trie_exhaustive(4 if ctx.quick else 5, 1)
    tcases += [gen_trie_ops(r, r.choice([5, 15, 40])) for _ in range(600 if ctx.quick else 6000)]
    tres = pool.map(run_trie_impl, tcases, chunksize=64)
    _trace(ctx, "trie impl done (%d cases)" % len(tcases))
    coq_cases = []
    nv = 0
    for ops, (results, viol) in zip(tcases, tres):
        ctx.count(("trie", tuple(ops)), nontrivial=any(o[0] == "del" for o in ops))
        for key, what, idx in viol[:2]:
            nv += 1
            if nv <= 6:
                small = ops[:idx + 1]
                ctx.violation(key, what, shrink_case({"kind": "trie", "ops": [list(o) for o in small]}, key))
        coq_cases.append(("[%s]" % "; ".join(top_coq(o) for o in ops), "[%s]" % "; ".join(tres_coq(x) for x in results)))
    ctx.sample({"trie_ops": [list(o) for o in tcases[-1][:8]], "impl": [list(x) for x in tres[-1][0][:8]]})
    mism, errs = coqrun.eval_mismatches(IMPORTS, "run_trie", "list_eqb tres_eqb", coq_cases, os.path.join(scratch, "trie"),
                                        ctype="list top * list tres", shard=500, jobs=14)
    for e in errs:
        ctx.broke("model evaluation failed (trie)", e)
    for i in mism[:5]:
        ctx.broke("correspondence: trie history differs between model and implementation",
                  json.dumps({"ops": [list(o) for o in tcases[i]], "impl": coq_cases[i][1][:600]}))
    ctx.coverage["traces_validated_against_impl"] += len(coq_cases) - len(mism)
    ctx.extra["trie_cases"] = len(coq_cases)

    _trace(ctx, "trie model done")
    # ---- exhaustive sweep: every addition sequence over a 4-bit identifier space, capacity 2
    depth = 3 if ctx.quick else 4          # sequences of length <= depth + 1
    exh_in, exh_cases = [], []
    owns = [0b0110 << (W - 4)] if ctx.quick else [0b0110 << (W - 4), (0b1111 << (W - 4)) | 12345]
    for own in owns:
        for first in range(16):
            exh_in.append((2, own, first, depth))
    exh_out = pool.map(exh_worker, exh_in, chunksize=1)
    _trace(ctx, "sweep impl done")
    plc = "[%s]" % ";".join("(%s)" % ", ".join(cz(x) for x in p) for p in exh_pool())
    nseq = 0
    for (cap, own, first, d), (digest, count, viol) in zip(exh_in, exh_out):
        nseq += count
        ctx.coverage["evaluations"] += count
        ctx._distinct.add(("exh", own, first, d))
        for key, what, seq in viol[:2]:
            ctx.violation(key, "4-bit sweep, additions %s: %s" % (seq, what),
                          shrink_case({"kind": "exh", "cap": cap, "own": "%x" % own, "seq": seq}, key))
        exh_cases.append(("(%d, %d, %s, %s, %d, %d)" % (W, cap, cz(own), plc, first, d), str(digest)))
    mism, errs = coqrun.eval_mismatches(IMPORTS, "run_exh", "Z.eqb", exh_cases, os.path.join(scratch, "exh"),
                                        ctype="exh_case * Z", shard=1, jobs=14, timeout=1500)
    for e in errs:
        ctx.broke("model evaluation failed (exhaustive sweep)", e)
    for i in mism[:5]:
        ctx.broke("correspondence: digest of the exhaustive 4-bit sweep differs between model and implementation", exh_in[i])
    ctx.coverage["traces_validated_against_impl"] += (len(exh_cases) - len(mism)) * (nseq // max(1, len(exh_cases)))
    ctx.extra["exhaustive_sequences"] = nseq

    _trace(ctx, "sweep model done (%d sequences)" % nseq)
    # ---- random histories at W = 160
    nh = 120 if ctx.quick else 1000
    hist_in = []
    for i in range(nh):
        n_ops = r.choice([30, 120, 120, 400, 400, 900]) if i % 12 else 2000
        cap = 8 if i % 5 else r.choice([1, 2, 3, 8])
        centers, ops = gen_history(r, n_ops, cap)
        step = 1 if n_ops <= 120 else max(1, n_ops // 6)
        checks = set(range(0, len(ops), step)) if n_ops > 120 else set(r.sample(range(len(ops)), 6))
        hist_in.append((cap, centers, ops, r.getrandbits(32), checks))
    hist_out = pool.map(run_history, hist_in, chunksize=2)
    _trace(ctx, "histories impl done")
    coq_cases, agg = [], {}
    order = sorted(range(nh), key=lambda i: -len(hist_in[i][2]))
    reported = 0
    opmix = {}
    for i in order:
        cap, centers, ops, seed, checks = hist_in[i]
        results, viol, stats = hist_out[i]
        for o in ops:
            opmix[o[0]] = opmix.get(o[0], 0) + 1
        for k, v in stats.items():
            agg[k] = max(agg.get(k, 0), v) if k in ("max_depth", "nodes_max") else agg.get(k, 0) + v
        ctx.count(("hist", cap, centers[0], len(ops), seed), nontrivial=stats["splits"] > 0)
        ctx.coverage["evaluations"] += stats["oracle_closest"]
        seen = set()
        for key, what, idx in viol:
            if key in seen or reported >= 6:
                continue
            seen.add(key)
            reported += 1
            small = shrink_history(cap, centers, ops, key) if (not key.startswith("closest/") or idx < 400) else ops[:idx + 1]
            ctx.violation(key, what, hist_json(cap, centers, small))
        coq_cases.append(hist_case_coq(cap, centers, ops, results))
    last = order[-1]
    ctx.sample({"history": {"cap": hist_in[last][0], "own": "%x" % hist_in[last][1][0],
                            "ops": ops_json(hist_in[last][2][:6]), "impl": [list(x) for x in hist_out[last][0][:6]]}})
    # interleave long and short histories over the shards
    nsh = 28 if ctx.quick else 126
    perm = [j for s in range(nsh) for j in range(s, nh, nsh)]
    shard = (nh + nsh - 1) // nsh
    coq_perm = [coq_cases[j] for j in perm]
    mism, errs = coqrun.eval_mismatches(IMPORTS, "run_hist", "list_eqb hres_eqb", coq_perm, os.path.join(scratch, "hist"),
                                        ctype="hist_case * list hres", shard=shard, jobs=14, timeout=1500)
    _trace(ctx, "histories model done")
    for e in errs:
        ctx.broke("model evaluation failed (histories)", e)
    for m in mism[:5]:
        i = order[perm[m]]
        cap, centers, ops, seed, checks = hist_in[i]
        ctx.broke("correspondence: routing history differs between model and implementation",
                  json.dumps({"cap": cap, "centers": ["%x" % c for c in centers], "n_ops": len(ops), "ops_head": ops_json(ops[:30])})[:3500])
    ctx.coverage["traces_validated_against_impl"] += len(coq_cases) - len(mism)
    if gen_ok:
        # the same histories (the shorter ones) evaluated by the functions generated from routing.py
        pick = [j for j in range(nh) if len(hist_in[order[j]][2]) <= 400][:(48 if ctx.quick else 400)]
        gcases = [coq_cases[j] for j in pick]
        mism, errs = coqrun.eval_mismatches(IMPORTS_GEN, "run_hist_gen", "list_eqb hres_eqb", gcases, os.path.join(scratch, "histg"),
                                            ctype="hist_case * list hres", shard=4 if ctx.quick else 8, jobs=14, timeout=1500)
        _trace(ctx, "histories generated-model done (%d)" % len(gcases))
        for e in errs:
            ctx.broke("generated model evaluation failed (histories)", e)
        for m in mism[:5]:
            cap, centers, ops, seed, checks = hist_in[order[pick[m]]]
            ctx.broke("correspondence: routing history differs between the GENERATED model and the implementation",
                      json.dumps({"cap": cap, "centers": ["%x" % c for c in centers], "n_ops": len(ops), "ops_head": ops_json(ops[:30])})[:3500])
        ctx.coverage["traces_validated_against_impl"] += len(gcases) - len(mism)
        ctx.extra["generated_model_histories"] = len(gcases)
    ctx.extra["op_mix"] = opmix
    ctx.extra["history_stats"] = agg
    ctx.coverage["rule"] = (
        "trie: every sequence of set/del over all keys of length <= 2 (depth %d) and <= 1 (depth %d) followed by a full observation, "
        "plus random op sequences; routing: random histories (30..2000 ops, capacity 8 and 1..3) with uniform, clustered-around-own, "
        "off-path-clustered and repeated ids, touch/remove_bad/get/closest/dump; oracle: tree validity after every split and at "
        "checkpoints, get_bucket on 24 ids and closest_nodes for 50 targets x k=1..20 at checkpoints (7 targets x k in {1,3,8,20} "
        "when the tree has more than 24 buckets: the implementation's walk is quadratic in the depth), every closest/add/"
        "remove_bad operation of the history itself; "
        "exhaustive: all addition sequences of length <= %d over 16 ids differing in the top 4 bits, capacity 2 (digest compared "
        "with the model, oracle on every state); generate_id: every prefix length 0..160 with minimal, maximal and random draws. "
        "non-trivial = history with at least one split / trie sequence with a deletion / non-empty prefix"
        % ((3 if ctx.quick else 4), (4 if ctx.quick else 5), depth + 1))
    ctx.coverage["exhaustive"] = False


def replay(path):
    """Re-run the recorded failing cases against the implementation and print what happens."""
    repoenv.setup()
    js = json.load(open(path))
    rc = 0
    for v in js.get("violations", []):
        out = eval_case(v["case"])
        if out:
            rc = 1
            for key, what in out[:5]:
                print("STILL FAILS %s :: %s" % (key, what[:600]))
        else:
            print("passes now: %s" % v["key"])
    for b in js.get("no_longer_checks", []):
        print("no longer checks:", b["what"])
        rc = 1
    return rc
