"""C04 / C05 extension - the tunnel handlers as translated from the source.

Stage G: tools/tr/tr_onion.py -> coq/gen/G04_onion.v (TunnelCommunity.send_cell, send_data, exit_data, on_data, on_ping,
         on_pong, on_test_request, should_join_circuit, join_circuit, on_create, on_created, on_destroy, remove_circuit /
         remove_relay / remove_exit_socket, destroy_*, the wrapper of @unpack_cell; PythonCryptoEndpoint.send_cell,
         outgoing_crypto; TunnelExitSocket.tunnel_data and the per-instance-state obligation on TunnelExitSocket; fail
         closed) and tools/tr/tr_recv.py -> coq/gen/G03_recv.v (the plaintext rule of C04x is stated on it).
Stage P: coq/props/C04x.v / C05x.v (ctx.proofs(part=...) of the caller).
Stage C: the lockstep cases of the caller (real nodes, one event per case) evaluated on the GENERATED functions inside Coq:
         model/M04_onion_gen.g_run_lcase (events of C04) and model/M05_onion_gen.g_run_hcase (histories of C05).
"""
from __future__ import annotations

import os
import time

from tools.tr import tr_onion, tr_recv
from tools.vlib import coqrun, onionlock

GEN_MODS = "model.M05_isolation model.M04_gen_rt gen.G04_onion model.M04_onion_gen"
NOT_TRANSLATED = [
    "tools/tr/tr_onion.py: AST translation of the tunnel handlers into the monad of model/M04_gen_rt.v (fail closed); not "
    "translated, hence oracles / primitives: os.urandom, TunnelCrypto (key agreement), Peer(key bytes, address), the candidate "
    "list of a CreatedRequestCache, request caches Retry / Ping / Test, _ours_on_created_extended, remove_tunnel_delay > 0; "
    "M04_onion primitives circuit_hop, encrypt_cell, cell_to_bin, could_be_ipv8, C02's pack_msg / unpack_msg",
    "pinned helpers (source text compared by the translator): RoutingObject.__init__ / beat_heart, TunnelExitSocket.enable, "
    "Circuit.close / hop / hops / hs_session_keys, Hop.address, TunnelCommunity.send_destroy / send_packet; constructor maps of "
    "CellPayload, TunnelExitSocket, RelayRoute, CreatedRequestCache read from their __init__",
    "@task functions start at once and are split at `await sleep(remove_tunnel_delay)`; `await` of a translated coroutine function "
    "without suspension points is a call; statistics (bytes_up / bytes_down / last_activity) and logging are dropped",
    "glue model/M04_onion_gen.v / M05_onion_gen.v (hand-written): M04_onion's dispatch and M05_isolation's step with the "
    "generated functions plugged in; proved equal to the hand model in props/C04x.v / C05x.v",
]


def translate(ctx):
    """stage G; returns the generated text or None (reported as broken)"""
    t0 = time.perf_counter()
    try:
        return _translate(ctx)
    finally:
        ctx.extra["generated_stage_s"] = round(ctx.extra.get("generated_stage_s", 0) + time.perf_counter() - t0, 1)


def _translate(ctx):
    try:
        tr_recv.write()
    except Exception as e:   # tr_expr.Unsupported or anything else: fail closed
        ctx.broke("translator tr_recv aborted", e)
        for p in (tr_recv.DEST, tr_onion.DEST):
            try:
                os.remove(p)     # nothing may be proved or evaluated against a stale translation
            except OSError:
                pass
        return None
    try:
        text = tr_onion.write()
        ctx.extra.setdefault("generated", {})["gen/G04_onion.v"] = len(text)
        return text
    except Exception as e:
        ctx.broke("translator tr_onion aborted", e)
        try:
            os.remove(tr_onion.DEST)
        except OSError:
            pass
        return None


def build(ctx, target):
    ok, log, _cmd, _dt = coqrun.make([target], timeout=900)
    if not ok:
        ctx.broke("generated model does not build (%s)" % target, log[-3000:])
    return ok


def evaluate(ctx, tn, imports, run, eqb, cases, label, ctype, target, every=1):
    """the caller's lockstep cases on the generated functions; `every` thins them out in the quick tier"""
    t0 = time.perf_counter()
    try:
        _evaluate(ctx, tn, imports, run, eqb, cases, label, ctype, target, every)
    finally:
        ctx.extra["generated_stage_s"] = round(ctx.extra.get("generated_stage_s", 0) + time.perf_counter() - t0, 1)


def _evaluate(ctx, tn, imports, run, eqb, cases, label, ctype, target, every):
    if not cases or not build(ctx, target):
        return
    picked = [(i, c) for i, c in enumerate(cases) if (i // 40) % every == 0]     # whole blocks: neighbours share their states
    mism, errs = onionlock.eval_cases(tn, imports, run, eqb, [(c, e) for _, (c, e, _) in picked],
                                      os.path.join(ctx.scratch, label + "_gen"), ctype)
    for e in errs:
        ctx.broke("generated model evaluation failed (%s)" % label, e)
    for k in mism[:8]:
        c = picked[k][1]
        ctx.broke("correspondence (%s): the functions translated from the source (gen/G04_onion.v) and the implementation differ "
                  "on one event" % label, str(c[2])[:500] + "\nCASE " + c[0][:1500] + "\nIMPL " + c[1][:1500])
    ctx.coverage["traces_validated_against_impl"] += len(picked) - len(mism)
    ctx.extra.setdefault("lockstep_events_generated", {})[label] = len(picked)
