"""C06 extension - the emission path of the exit node tied to the source by translation.

translate(ctx): tools/tr/tr_exit.py regenerates coq/gen/G06_exit.v (decisions of on_data's exit branch, exit_data,
                enable/create_transports, sendto/on_address, datagram_received*, tunnel_data, queue bound) - fail closed.
(then the caller runs ctx.proofs(part="C06x"): props/C06x.v over model/M06_emit_gen.v, the interpreter of those decisions)
stage(ctx, text): op histories on the real TunnelExitSocket + TunnelCommunity.on_data/exit_data (fake transports that know
                their family, datagrams delivered through the TunnelProtocol the socket opened, textual look-alike source
                addresses) against M06_emit_gen evaluated inside Coq; the property oracle on what the implementation did.
"""
from __future__ import annotations

import asyncio
import ipaddress
import json
import os

from tools.checks import c06
from tools.checks.c06 import LOOKALIKE, NULL, PREV, permitted, dest_to_coq, dest_to_py, ops_json, ops_from_json
from tools.tr import tr_exit
from tools.vlib import coqrun
from tools.vlib.coqrun import zl, cb

IMPORTS = ("From Coq Require Import ZArith List Bool.\n"
           "From IPV8V Require Import lib.PyErr lib.Bytes gen.G06_datachecker gen.G06_exit model.M06_emit model.M06_emit_gen.\n"
           "Import ListNotations.\nOpen Scope Z_scope.\n")

# ---------------------------------------------------------------------------- address identifiers and their text
# exit-data source identifiers: < 2^32 dotted quad; 2^32 + j -> c06.LOOKALIKE[j]; 2^40 + j -> MORE_LOOKALIKE[j]
MORE_LOOKALIKE = ["10.0.0.5\n", "10.0.0.5\x00", "\t10.0.0.5", "10.0.0.4", "10.0.0.6", "10.0.1.5", "11.0.0.5", "1O.0.0.5",
                  "10.0.0.5/32", "10.0.0.55", "9.10.0.0.5", "10.0.0.", ".10.0.0.5", "10.0.0.5,", "0x0a000005", "167772165",
                  "10.0.5", "localhost", "10.0.0.5.5", "0.0.5", ".5", "10.0.0.5​", "１０.0.0.5", "10.0.0.5#",
                  "[10.0.0.5]", "5.0.0.10"]
# outside IPv6 source identifiers: < 2^128 the address; 2^130 + j -> V6TEXT[j]  (what source[0] may look like)
V6TEXT = ["::ffff:1.2.3.4", "::ffff:102:304", "::FFFF:1.2.3.4", "::ffff:", "::ffff", "::fff:1.2.3.4", ":ffff:1.2.3.4",
          "0:0:0:0:0:ffff:102:304", "::fffe:1.2.3.4", "::ffff:10.0.0.5", " ::ffff:1.2.3.4", "::ffff:1.2.3.4%eth0", "::",
          "::1", "2001:db8::ffff:1", "ffff::1", ""]
MAPPED_TEXT = "::ffff:1.2.3.4"     # what c06's harness hands the IPv6 callback when the op's mapped flag is set (key -1)
X32, X40, X130 = 2 ** 32, 2 ** 40, 2 ** 130


def src_text(n):
    if n >= X40:
        return MORE_LOOKALIKE[n - X40]
    if n >= X32:
        return LOOKALIKE[n - X32]
    return str(ipaddress.IPv4Address(n))


def out_text(src, mapped=False):
    """text of the source of an outside datagram, src = ('v4'|'v6', id, port)"""
    if mapped:
        return MAPPED_TEXT
    if src[0] == "v4":
        return str(ipaddress.IPv4Address(src[1]))
    return V6TEXT[src[1] - X130] if src[1] >= X130 else str(ipaddress.IPv6Address(src[1]))


def text_table(prev, ops):
    """the (identifier, text) pairs the model needs for one history"""
    tbl = {prev: src_text(prev), -1: MAPPED_TEXT}
    for op in ops:
        if op[0] == "exit":
            tbl[op[2]] = src_text(op[2])
        elif op[0] == "outside" and not op[2]:
            tbl[op[3][1]] = out_text(op[3])
    return tbl


def table_to_coq(tbl):
    return "[" + "; ".join("(%s, %s)" % (coqrun.cz(k), "[" + ";".join(str(ord(c)) for c in v) + "]") for k, v in sorted(tbl.items())) + "]"


# ---------------------------------------------------------------------------- implementation harness
class XTransport:
    def __init__(self, h, fam):
        self.h, self.fam, self.closed = h, fam, False

    def sendto(self, data, addr):
        self.h.log.append(("sendto", bytes(data), c06.py_to_dest(addr), self.fam))

    def close(self):
        self.closed = True


class XHarness(c06.Harness):
    """c06's exit node, with transports that know their family, outside datagrams delivered through the TunnelProtocol
    object the socket itself opened for that family (so the callback wiring is exercised), and address texts."""

    def __init__(self, flags, prefix):
        super().__init__(flags, prefix)
        h = self
        self.protos = {}
        self.raised = []     # (op index, exception) of implementation exceptions that reached the caller
        self.texts = {}      # text handed to an IPv6 callback -> abstract source
        es = self.es

        async def fake_open(proto):
            await h.gate
            fam = {"0.0.0.0": 4, "::": 6}[proto.local_addr[0]]
            h.protos[fam] = proto
            return XTransport(h, fam)
        es.TunnelProtocol.open = fake_open

        def send_data(target, circuit_id, dest, source, data):
            src = h.texts.get((source[0], source[1])) or c06.py_to_dest(source)
            h.log.append(("send_data", bytes(data), src, tuple(target), circuit_id, tuple(dest)))
        self.tc.send_data = send_data

    async def apply(self, op):
        k = op[0]
        if k == "exit":
            _, known, src, d, data = op
            pl = self.DataPayload(77 if known else 78, dest_to_py(d), NULL, data)
            packet = self.tc._prefix + bytes([pl.msg_id]) + self.tc.serializer.pack_serializable(pl)
            self.tc.on_data((src_text(src), 4000), packet, None)
            await self.settle()
        elif k == "outside":
            _, v6, mapped, src, data = op
            proto = self.protos.get(6 if v6 else 4)
            if proto is not None:
                text = out_text(src, mapped)
                self.texts[(text, src[2])] = src
                proto.datagram_received(data, (text, src[2], 0, 0) if v6 else (text, src[2]))
            await self.settle()
        else:
            await super().apply(op)


async def run_impl(flags, prefix, ops):
    h = XHarness(flags, prefix)
    per_op = []
    try:
        for op in ops:
            n0, en0 = len(h.log), bool(h.sock.enabled)
            try:
                await h.apply(op)
            except Exception as e:   # an exception of the implementation reaching the caller (transport / cell handler)
                h.raised.append((len(per_op), type(e).__name__ + ": " + str(e)[:200]))
                await h.settle()
            per_op.append((op, en0, bool(h.sock.enabled), h.log[n0:], len(h.sock.queue)))
        obs = await h.finish()
    except Exception:
        h.es.TunnelProtocol.open = h._orig_open
        raise
    return h.log, obs, per_op, h.raised


# ---------------------------------------------------------------------------- generators
UTP = [bytes([0x01 + 0x10 * (j % 5), j % 4]) + bytes([j]) * 18 for j in range(40)]     # distinguishable BT-shaped packets
JUNK = [bytes([0xEE, j]) + b"\xff" * 18 for j in range(8)]                             # shaped like nothing


def gen_src(r, prev):
    return r.choice([prev, prev, prev + 1, prev - 1, 1, r.getrandbits(32), X32 + r.randrange(len(LOOKALIKE)),
                     X40 + r.randrange(len(MORE_LOOKALIKE))])


def gen_outside(r, prefix):
    v6 = r.random() < 0.6
    if v6:
        ip = X130 + r.randrange(len(V6TEXT)) if r.random() < 0.6 else r.getrandbits(128) | (1 << 100)
        src = ("v6", ip, r.randrange(1, 65536))
    else:
        src = ("v4", r.getrandbits(32) or 1, r.randrange(1, 65536))
    return ("outside", v6, v6 and r.random() < 0.1, src, c06.gen_payload(r, prefix))


def gen_ops(r, prefix, n, prev):
    ops = []
    for _ in range(n):
        k = r.choices(["exit", "created", "resolved", "outside"], [6, 1, 2, 4])[0]
        if k == "exit":
            ops.append(("exit", r.random() < 0.9, gen_src(r, prev), c06.gen_dest(r), c06.gen_payload(r, prefix)))
        elif k == "created":
            ops.append(("created",))
        elif k == "resolved":
            d = c06.gen_dest(r)
            while d[0] in ("null", "dom"):
                d = c06.gen_dest(r)
            ops.append(("resolved", r.randrange(3), r.random() < 0.8, d))
        else:
            ops.append(gen_outside(r, prefix))
    return ops


def gen_history(r, i, prefix, prev):
    fam = i % 8
    body = gen_ops(r, prefix, r.choice([3, 6, 12, 20]), prev)
    if fam == 0:
        # more than the queue holds, both families, forbidden packets in between, before the transports exist
        n = r.choice([3, 9, 10, 11, 14])
        pre = [("exit", True, prev, ("v4", 9, 9), UTP[0])]
        for j in range(1, n + 1):
            d = ("v6", (1 << 100) + j, 7) if r.random() < 0.4 else ("v4", 100 + j, 9)
            pre.append(("exit", True, r.choice([prev, prev, X32, 7]), d, JUNK[j % 8] if r.random() < 0.25 else UTP[j]))
        return pre + [("created",)] + body, "queue"
    if fam == 1:
        # the very first exited packet comes from an address that resembles the hop's
        pool = [X32 + j for j in range(len(LOOKALIKE))] + [X40 + j for j in range(len(MORE_LOOKALIKE))]
        a = pool[(i // 8) % len(pool)]
        pre = [("exit", True, a, ("v4", 9, 9), UTP[1]), ("created",), gen_outside(r, prefix)]
        if r.random() < 0.5:
            pre += [("exit", True, prev, ("v6", (1 << 100) + 5, 9), UTP[2]), ("exit", True, r.choice(pool), ("v4", 9, 9), UTP[3])]
        return pre + body, "lookalike"
    if fam == 2:
        # open the socket, then datagrams from every kind of IPv6 source text on the v6 transport (and v4 ones)
        pre = [("exit", True, prev, ("v4", 9, 9), UTP[0]), ("created",)]
        for j in r.sample(range(len(V6TEXT)), 6):
            pre.append(("outside", True, False, ("v6", X130 + j, 1000 + j), r.choice([UTP[j], JUNK[j % 8], prefix + b"\x01abc"])))
        pre.append(("outside", True, True, ("v6", 5 | (1 << 100), 5), UTP[5]))
        return pre + body, "mapped"
    if fam == 3:
        # domain names: deferred, resolved in any order, before and after the transports exist; forbidden ones too
        pre = [("exit", True, prev, ("dom", j, 80 + j), JUNK[j] if j == 1 else UTP[j]) for j in range(r.choice([1, 3, 4]))]
        mid = [("created",)] if r.random() < 0.5 else []
        res = [("resolved", r.randrange(3), r.random() < 0.8, r.choice([("v4", 50, 50), ("v6", (1 << 100) + 50, 50)])) for _ in range(4)]
        return pre + mid + res + [("created",)] + body, "domain"
    return body, "random"


# ---------------------------------------------------------------------------- coq rendering
def op_to_coq(op):
    if op[0] == "outside":
        return "Outside %s %s %s %s" % (cb(op[1]), cb(op[2]), dest_to_coq(op[3]), zl(op[4]))
    return c06.op_to_coq(op)


def expected_coq(log, obs):
    tags = [e[3] if e[0] == "sendto" else 0 for e in log]
    return "((%s, (%s, %s, %d, %d, %d, %d)), [%s], false)" % (
        c06.log_to_coq(log), cb(obs[0]), cb(obs[1]), obs[2], obs[3], obs[4], obs[5], ";".join(str(t) for t in tags))


def case_coq(fl, prefix, prev, ops):
    return "(%s, (%s, %s, %d, [%s]))" % (table_to_coq(text_table(prev, ops)), zl(fl), zl(prefix), prev,
                                         "; ".join(op_to_coq(o) for o in ops))


# ---------------------------------------------------------------------------- the property oracle
def oracle(ctx, fl, prefix, prev, ops, log, obs, per_op):
    """the property text, on what the implementation did; returns number of violations reported"""
    n0 = len(ctx.violations)
    case = {"kind": "histx", "flags": fl, "prefix": prefix.hex(), "prev": prev, "ops": ops_json(ops)}
    for e in log:
        if not permitted(fl, prefix, e[1]):
            ctx.violation("emit/forbidden/%s" % e[0], "%s of forbidden payload %s with flags %s" % (e[0], e[1].hex(), fl), case)
        if e[0] == "sendto" and e[2] == ("null",):
            ctx.violation("emit/null-destination", "transport.sendto towards 0.0.0.0:0", case)
        if e[0] == "sendto" and e[2][0] in ("v4", "v6") and e[3] != int(e[2][0][1]):
            ctx.violation("emit/wrong-transport", "packet for %s left through the IPv%d transport" % (e[2], e[3]), case)
    for (op, en0, en1, lg, qlen) in per_op:
        if not en0 and en1:
            ok = op[0] == "exit" and op[1] and src_text(op[2]) == PREV[0]
            if not ok:
                ctx.violation("enable/not-prev-hop", "socket enabled by %r from source address %r (previous hop %r)" % (
                    op[:4], src_text(op[2]) if op[0] == "exit" else None, PREV[0]), case)
        if not en1 and lg:
            ctx.violation("emit/while-disabled", "emission while the socket is disabled", case)
        if qlen > 10:
            ctx.violation("queue/unbounded", "exit socket queue length %d" % qlen, case)
    return len(ctx.violations) - n0


# ---------------------------------------------------------------------------- stages
def translate(ctx):
    """stage G for the extension; returns the generated text or None (reported as broken)"""
    try:
        text = tr_exit.write()
        ctx.extra.setdefault("generated", {})["gen/G06_exit.v"] = len(text)
        return text
    except Exception as e:   # tr_expr.Unsupported or anything else: fail closed
        ctx.broke("translator tr_exit aborted", e)
        try:
            os.remove(tr_exit.DEST)    # nothing may be evaluated or proved against stale decisions
        except OSError:
            pass
        return None


def stage(ctx, text="unset"):
    """correspondence + oracle; `text` = result of translate(ctx) (None: model unavailable, oracle still runs)"""
    if text == "unset":
        text = translate(ctx)
    r = ctx.rng("exit-decisions")
    prefix = b"\x00\x02" + bytes(range(100, 120))
    prev = int(ipaddress.IPv4Address(PREV[0]))
    loop = asyncio.new_event_loop()
    asyncio.set_event_loop(loop)
    nh = 480 if ctx.quick else 6000
    cases, meta, fams, kinds, nraised = [], [], {}, {}, 0
    for i in range(nh):
        fl = r.choice(c06.ALL_FLAGSETS)
        ops, fam = gen_history(r, i, prefix, prev)
        log, obs, per_op, raised = loop.run_until_complete(run_impl(fl, prefix, ops))
        nraised += len(raised)
        for (k, what) in (raised[:1] if nraised <= 3 else []):
            ctx.broke("correspondence: the implementation raised %s at op %d (the model's calls do not raise)" % (what, k),
                      json.dumps({"flags": fl, "ops": ops_json(ops[:k + 1])}))
        fams[fam] = fams.get(fam, 0) + 1
        for op in ops:
            kinds[op[0]] = kinds.get(op[0], 0) + 1
        ctx.count(("histx", tuple(fl), tuple(ops)), nontrivial=len(log) > 0)
        oracle(ctx, fl, prefix, prev, ops, log, obs, per_op)
        cases.append((case_coq(fl, prefix, prev, ops), expected_coq(log, obs)))
        meta.append((fl, ops))
        if i in (0, 1):
            ctx.sample({"exit_history": ops_json(ops)[:8], "flags": fl,
                        "impl_outputs": [(e[0], e[1].hex()[:16], e[2], e[3] if e[0] == "sendto" else 0) for e in log][:8]})
    loop.close()
    ctx.extra["exit_decisions"] = {"histories": nh, "families": fams, "op_mix": kinds,
                                   "lookalike_sources": len(LOOKALIKE) + len(MORE_LOOKALIKE), "v6_source_texts": len(V6TEXT)}
    if text is not None:
        mism, errs = coqrun.eval_mismatches(IMPORTS, "run_histx", "obsx_eqb", cases, os.path.join(ctx.scratch, "histx"),
                                            ctype="histx_case * obsx", shard=40)
        for e in errs:
            ctx.broke("model evaluation failed (exit decisions)", e)
        for i in mism[:10]:
            ctx.broke("correspondence: emission history differs between the generated-decision model and the implementation",
                      json.dumps({"flags": meta[i][0], "ops": ops_json(meta[i][1]), "impl": cases[i][1][:600]}))
        ctx.coverage["traces_validated_against_impl"] += len(cases) - len(mism)
    ctx.coverage["trusted_base"] = ctx.coverage.get("trusted_base", []) + [
        "translator tools/tr/tr_exit.py (Python ast -> decision lists of gen/G06_exit.v; fail closed) and the hand-written "
        "interpreter of its effects coq/model/M06_emit_gen.v, tied by this run's correspondence (op histories incl. textual "
        "look-alike source addresses)"]


def replay_case(c):
    """re-run one recorded history on the implementation; 1 if the property is still violated"""
    loop = asyncio.new_event_loop()
    asyncio.set_event_loop(loop)
    ops = ops_from_json(c["ops"])
    pfx = bytes.fromhex(c["prefix"])
    log, obs, per_op, raised = loop.run_until_complete(run_impl(c["flags"], pfx, ops))
    loop.close()
    for r in raised:
        print("implementation raised at op %d: %s" % r)
    rc = 0
    for (op, en0, en1, lg, qlen) in per_op:
        if not en0 and en1:
            okp = op[0] == "exit" and op[1] and src_text(op[2]) == PREV[0]
            print("socket enabled by", op[:4], "source", repr(src_text(op[2])) if op[0] == "exit" else None,
                  "hop", PREV[0], "ok" if okp else "NOT THE PREVIOUS HOP")
            rc |= int(not okp)
        for e in lg:
            okp = permitted(c["flags"], pfx, e[1])
            bad_t = e[0] == "sendto" and e[2][0] in ("v4", "v6") and e[3] != int(e[2][0][1])
            print(e[0], e[1].hex(), e[2], "permitted" if okp else "FORBIDDEN", "WRONG TRANSPORT" if bad_t else "",
                  "" if en1 else "WHILE DISABLED")
            rc |= int(not okp) | int(e[0] == "sendto" and e[2] == ("null",)) | int(bad_t) | int(not en1)
        if qlen > 10:
            print("queue length", qlen)
            rc = 1
    return rc
