"""C01 extension - the decorators of ipv8/lazy_community.py as TRANSLATED (tools/tr/tr_auth.py -> coq/gen/G01_auth.v),
theorems in coq/props/C01x.v.

translate(ctx): stage G (fail closed: an abort is reported like a broken proof).
stage(ctx)    : correspondence + oracle, self-contained:
  (D) the REAL decorators (lazy_wrapper, _wd, _unsigned, _unsigned_wd applied to a recording function, called on a real
      overlay with a scratch Network) against the generated model evaluated in Coq (run_auth_gen): valid datagrams of every
      authenticated id of every shipped overlay and their mutants, each in the situations "key unknown to the receiver"
      and "key already verified at another address" (plain / frozen / with other peers around); compared: exception or
      handler entry (peer key, address list at entry, whether it is the Network's object, payload values, raw data) and the
      whole verified-peer table afterwards;
  (E) EZPackOverlay._ez_unpack_auth against run_ez_gen;  (S) ezr_pack against run_pack_gen (sender side);
  (H) histories: sequences of datagrams (authentic and not, several source addresses) through Endpoint.notify_listeners
      into the real handlers; oracle = auth_no_verified_entry_without_key stated on the implementation.
Oracle (independent of ipv8's slicing, key vault only): handler entered with a Peer => the datagram is authentic for
exactly that Peer's key; an authentic datagram is not rejected; the verified-peer table of the receiver changes (new key,
or address list of a known key) only for keys with an authentic datagram in the delivered sequence.
"""
from __future__ import annotations

import asyncio
import json
import os

from tools.tr import tr_auth
from tools.vlib import coqrun, simnet, wire
from tools.vlib.coqrun import zl

IMPORTS = ("From Coq Require Import ZArith List Bool String.\n"
           "From IPV8V Require Import lib.PyErr lib.Bytes model.M02_wire model.M01_auth gen.G01_auth model.M01_auth_gen.\n"
           "Import ListNotations.\nOpen Scope Z_scope.\n")
KIND_NO = {"signed": 0, "signed_wd": 1, "unsigned": 2, "unsigned_wd": 3}
EXN = {"PacketDecodingError": "DecodingError", "PackError": "PackError", "ValueError": "ValueError", "TypeError": "TypeError",
       "IndexError": "IndexError", "KeyError": "KeyError", "error": "StructError", "RuntimeError": "RuntimeError",
       "AssertionError": "AssertionError", "UnicodeDecodeError": "UnicodeError", "OSError": "OSError"}


def translate(ctx):
    """Stage G. Returns the generated text, or None after reporting the abort."""
    try:
        text = tr_auth.write()
        ctx.extra.setdefault("generated", {})["gen/G01_auth.v"] = len(text)
        return text
    except Exception as e:   # noqa  fail closed
        ctx.broke("translator tr_auth aborted", repr(e))
        return None


# ------------------------------------------------------------------------------------------------ helpers
def factories():
    from ipv8 import lazy_community as lc
    return {"signed": lc.lazy_wrapper, "signed_wd": lc.lazy_wrapper_wd, "unsigned": lc.lazy_wrapper_unsigned,
            "unsigned_wd": lc.lazy_wrapper_unsigned_wd}


def decorator_codes():
    dummy = lambda *a, **k: None   # noqa
    return {f()(dummy).__code__: k for k, f in factories().items()}


def handler_kind(h, codes):
    """(kind, payload classes) of a registered handler, through the spy wrappers of c01/c03 nodes"""
    f = h
    while getattr(f, "__code__", None) not in codes and getattr(f, "__closure__", None) and not hasattr(f, "__func__"):
        inner = [c.cell_contents for c in f.__closure__ if callable(c.cell_contents)]
        inner = [x for x in inner if hasattr(x, "__func__") or hasattr(x, "__code__")]
        if not inner:
            break
        f = inner[0]
    f = getattr(f, "__func__", f)
    chain = [f]
    while hasattr(chain[-1], "__wrapped__"):
        chain.append(chain[-1].__wrapped__)
    deco = next((g for g in chain if getattr(g, "__code__", None) in codes), None)
    if deco is None:
        return "raw", ()
    cells = dict(zip(deco.__code__.co_freevars, deco.__closure__))
    return codes[deco.__code__], tuple(cells["payloads"].cell_contents) if "payloads" in cells else ()


def atag(a):
    from ipv8.messaging.interfaces.udp.endpoint import UDPv4Address, UDPv6Address
    c = a.__class__
    return 0 if c is UDPv6Address else 1 if c is UDPv4Address else 2 if c is tuple else 3


def paddr(a):
    return (atag(a), str(a[0]).encode(), int(a[1]))


def paddr_coq(t):
    return "(%d, %s, %d)" % (t[0], zl(t[1]), t[2])


def peer_state(p):
    return (p.public_key.key_to_bin(), sorted(paddr(a) for a in p.addresses.values()), bool(p.address_frozen))


def net_state(nw):
    return [(k, peer_state(p)) for k, p in nw.verified_by_public_key_bin.items()]


def net_coq(st, pkf=None):
    return "[" + "; ".join("(%s, mkPeer %s [%s] %s)" % (kz(k, pkf), kz(pk, pkf), "; ".join(paddr_coq(a) for a in addrs),
                                                          "true" if fr else "false") for k, (pk, addrs, fr) in st) + "]"


def oracle_tables(md):
    """siglen / validity tables for the model: the key field's signature length, and validity of the split into
    data[:-n] / data[-n:] checked with the key vault directly.  The Coq terms refer to the datagram as d_ and to its key
    field as k_ (bound once per case: numerals dominate the cost of evaluating the cases in Coq)"""
    from ipv8.keyvault.crypto import default_eccrypto as ec
    from tools.checks.c01 import independent_auth
    auth_ok, pk_field = independent_auth(md)
    lens, valids = [], []
    if pk_field is not None:
        try:
            key = ec.key_from_public_bin(pk_field)
            n = ec.get_signature_length(key)
            lens.append("(k_, %d%%nat)" % n)
            sp, sg = (md[:-n], md[-n:]) if n else (b"", md)
            try:
                if ec.is_valid_signature(key, sp, sg):
                    valids.append("(k_, %d%%nat, d_)" % n)
            except Exception:   # noqa
                pass
        except Exception:   # noqa
            pass
    return auth_ok, pk_field, "[%s]" % "; ".join(lens), "[%s]" % "; ".join(valids)


def lets(md, pk_field):
    return "let d_ : bytes := %s in let k_ : bytes := %s in (" % (zl(md), zl(pk_field or b""))


def kz(b, pk_field):
    """a key as a Coq term: the bound name when it is the datagram's key field"""
    return "k_" if pk_field is not None and b == pk_field else zl(b)


def classes_coq(payloads, reg):
    return "[" + "; ".join("[" + "; ".join(wire.fmt_coq(f) for f in wire.class_fmts(p, reg)) + "]" for p in payloads) + "]"


class Recorder:
    """the decorated function: records what it is entered with"""

    def __init__(self, nw):
        self.nw = nw
        self.entries = []

    def __call__(self, self_, first, *args, **kw):
        from ipv8.peer import Peer
        if isinstance(first, Peer):
            k = first.public_key.key_to_bin()
            snap = ("peer", k, sorted(paddr(a) for a in first.addresses.values()),
                    self.nw.verified_by_public_key_bin.get(k) is first)
        else:
            snap = ("addr", paddr(first))
        self.entries.append((snap, args, dict(kw), first))
        return None


def entry_coq(entry, payloads, reg, md=None, pkf=None):
    snap, args, kw, _ = entry
    dz = lambda b: "d_" if md is not None and bytes(b) == md else zl(bytes(b))   # noqa: E731
    if snap[0] == "peer":
        f = "CPeer %s [%s] %s" % (kz(snap[1], pkf), "; ".join(paddr_coq(a) for a in snap[2]), "true" if snap[3] else "false")
    else:
        f = "CAddr %s" % paddr_coq(snap[1])
    out = []
    pi = 0
    for a in args:
        if isinstance(a, (bytes, bytearray)):
            out.append("AData %s" % dz(a))
        else:
            out.append("APayload [%s]" % "; ".join(wire.msg_vals_coq(wire.class_fmts(payloads[pi], reg), a)))
            pi += 1
    for k, v in kw.items():
        out.append("AKw \"%s\"%%string %s" % (k, dz(v)))
    return "(%s, [%s])" % (f, "; ".join(out))


def scratch_network(situation, kf, other_key, r):
    """a Network holding exactly the peers of the situation; returns (network, known peer or None)"""
    from ipv8.messaging.interfaces.udp.endpoint import UDPv4Address
    from ipv8.peer import Peer
    from ipv8.peerdiscovery.network import Network
    nw = Network()

    def file(p):
        nw.verified_peers.add(p)
        nw.verified_by_public_key_bin[p.public_key.key_to_bin()] = p
    known = None
    if situation in ("known+others", "unknown+others"):
        file(Peer(other_key, UDPv4Address("10.7.7.7", 77)))
    if situation.startswith("known"):
        addr = ("10.9.9.9", 999) if situation in ("known", "known+others") else UDPv4Address("10.9.9.9", 999)
        known = Peer(kf, addr)      # raises when the key field is not a key: nothing to know then
        if situation == "known-frozen":
            known.address_frozen = True
        file(known)
    return nw, known


SITUATIONS = ("unknown", "known", "known-v4", "known-frozen", "known+others", "unknown+others")


def few_mutations(r, d, others, wrong_key, quick):
    """mutants of an authentic datagram that matter to the decorator (prefix / message id are dispatch, not decorator)"""
    from ipv8.keyvault.crypto import default_eccrypto as ec
    from tools.checks.c01 import mutations
    n = len(d)
    out = []
    allm = mutations(r, d, others, wrong_key, True)
    keep = {"key-substituted-old-signature", "signed-by-other-key", "key-substituted-resigned", "signature-transplant",
            "payload-splice", "extend"}
    per = {}
    for name, md in allm:
        lim = (4 if quick else 60) if name == "bitflip" else (3 if quick else 30) if name == "truncate" else \
            ((1 if quick and name in ("extend", "signature-transplant", "payload-splice") else 2) if name in keep else 0)
        if per.get(name, 0) < lim and len(md) > 22 and md[:23] == d[:23]:
            per[name] = per.get(name, 0) + 1
            out.append((name, md))
    return out, n


def run_decorator(ov, kind, payloads, nw, src, data):
    """call the real decorator applied to a recorder on overlay `ov` with Network `nw`"""
    rec = Recorder(nw)
    wrapped = factories()[kind](*payloads)(rec)
    saved = ov.network
    ov.network = nw
    try:
        wrapped(ov, src, data)
        exc = None
    except Exception as e:   # noqa
        exc = type(e).__name__
    finally:
        ov.network = saved
    return exc, rec.entries


# ------------------------------------------------------------------------------------------------ the stage
def stage(ctx, text="unset"):
    import logging
    logging.disable(logging.CRITICAL)
    if text == "unset":
        text = translate(ctx)
    ctx.coverage["trusted_base"] = list(ctx.coverage.get("trusted_base", [])) + [
        "tools/tr/tr_auth.py: AST translation of the decorator bodies and EZPackOverlay helpers of lazy_community.py (fail closed); "
        "the meaning of what they call outside that file (serializer, key vault, Network.verified_by_public_key_bin, "
        "Peer.add_address, Peer(...)) is the runtime of coq/model/M01_auth_gen.v, tied by this stage's correspondence",
        "handler bodies are not translated: theorems over histories assume a handler touches the Network only through the Peer "
        "it is handed (add_verified_peer(peer), peer.address = ...); the history oracle checks the real handlers against that",
    ]
    loop = asyncio.new_event_loop()
    asyncio.set_event_loop(loop)
    try:
        loop.run_until_complete(_stage(ctx, text))
    finally:
        loop.close()


async def _stage(ctx, text):
    import time
    t0 = time.time()
    timing = {}
    from ipv8.keyvault.crypto import default_eccrypto as ec
    from ipv8.messaging.interfaces.udp.endpoint import UDPv4Address, UDPv6Address
    from ipv8.messaging.payload import IntroductionRequestPayload
    from ipv8.peer import Peer
    from tools.checks import c01, c02, c03
    r = ctx.rng("auth_gen")
    ser = wire.make_serializer()
    reg = wire.registry_for_harness(ctx, ser)
    vkeys = [ec.generate_key("curve25519").pub().key_to_bin() for _ in range(2)]
    other_key = ec.generate_key("curve25519").pub().key_to_bin()
    wrong_key = ec.generate_key("curve25519")
    gen_class = c02.make_gen_class(reg, vkeys)
    classes = c03.overlay_classes()
    net = simnet.SimNet()
    A = c01.AuthNode(net, ("10.0.0.1", 1000), classes)
    B = c01.AuthNode(net, ("10.0.0.2", 1000), classes)
    codes = decorator_codes()
    kinds = {}
    for ov in B.overlays:
        for mid in range(256):
            h = ov.decode_map[mid]
            if h is not None:
                kinds[(id(ov), mid)] = handler_kind(h, codes)
    # ---- authentic datagrams: protocol runs + one synthesised per decorated id
    for a, b in zip(A.overlays, B.overlays):
        try:
            a.walk_to(b.my_peer.address)
        except Exception:   # noqa
            pass
    await net.pump()
    prefix_to_idx = {ov.get_prefix(): i for i, ov in enumerate(B.overlays)}
    valid = []      # (overlay index, datagram, kind, payload classes, origin)
    for (src, dst, d) in net.log:
        if dst == B.ep.addr and d[:22] in prefix_to_idx and len(d) > 22:
            i = prefix_to_idx[d[:22]]
            kind, pls = kinds.get((id(B.overlays[i]), d[22]), ("raw", ()))
            if kind in ("signed", "signed_wd") and c01.independent_auth(d)[0]:
                valid.append((i, d, kind, pls, "captured"))
    unsigned_valid = []
    for i, (a, b) in enumerate(zip(A.overlays, B.overlays)):
        for mid in range(256):
            kind, pls = kinds.get((id(b), mid), ("raw", ()))
            if kind == "raw":
                continue
            try:
                insts = [gen_class(r, p) for p in pls]
                d = a.ezr_pack(mid, *insts, sig=kind in ("signed", "signed_wd"))
            except Exception:   # noqa
                continue
            if len(d) > 700:
                continue
            (valid if kind in ("signed", "signed_wd") else unsigned_valid).append((i, d, kind, pls, "synthesised"))
    ctx.extra["auth_gen_valid_datagrams"] = len(valid)
    ctx.extra["auth_gen_unsigned_datagrams"] = len(unsigned_valid)
    all_valid_bytes = [v[1] for v in valid]
    srcs = [UDPv4Address("10.0.0.1", 1000), UDPv4Address("10.6.6.6", 666), UDPv6Address("fe80::1", 7), ("10.5.5.5", 55)]
    preamble = "Definition KC : list bytes := [%s].\n" % "; ".join(zl(k) for k in vkeys)

    # ---- (D) the decorators themselves
    cases, meta = [], []
    stats = {"entered": 0, "rejected": 0, "by_situation": {}, "by_mutation": {}}

    def one(i, kind, pls, mname, md, situation, src):
        ov = B.overlays[i]
        auth_ok, pk_field, lens, valids = oracle_tables(md)
        try:
            nw, known = scratch_network(situation, pk_field, other_key, r)
        except Exception:   # noqa  - the key field is not a key the vault accepts
            return
        shims = tuple(wire.shim(p) for p in pls)
        before = net_state(nw)
        exc, entries = run_decorator(ov, kind, shims, nw, src, md)
        after = net_state(nw)
        m = {"kind": "decorator", "decorator": kind, "overlay": type(ov).__name__, "msg_id": md[22] if len(md) > 22 else None,
             "mutation": mname, "situation": situation, "src": [src[0], src[1], atag(src)], "data": md.hex()}
        ctx.count(("dec", kind, situation, md, paddr(src)), nontrivial=len(md) > 23)
        stats["by_situation"][situation] = stats["by_situation"].get(situation, 0) + 1
        stats["by_mutation"][mname] = stats["by_mutation"].get(mname, 0) + 1
        signed = kind in ("signed", "signed_wd")
        entered = False
        for (snap, args, kw, first) in entries:
            if snap[0] == "peer":
                entered = True
                if not auth_ok:
                    ctx.violation("unauthentic-datagram-enters-signed-handler/%s+%s" % (mname, situation),
                                  "%s applied to a recorder was entered with Peer %s for a datagram without a valid signature "
                                  "(%s, key %s)" % (kind, snap[1].hex()[20:40], mname, situation), m)
                elif snap[1] != pk_field:
                    ctx.violation("peer-key-differs-from-datagram-key/%s+%s" % (mname, situation),
                                  "entered with Peer key %s but the datagram carries key %s" % (snap[1].hex()[20:40], pk_field.hex()[20:40]), m)
            elif signed:
                ctx.violation("signed-decorator-passes-address", "%s handed an Address to the decorated function" % kind, m)
        stats["entered" if entered else "rejected"] += 1
        if signed and auth_ok and not entered:
            ctx.violation("authentic-datagram-rejected/%s+%s" % (mname, situation),
                          "an authentic datagram (%s) was rejected by %s (%s)" % (mname, kind, exc), m)
        if len(entries) > 1:
            ctx.violation("handler-entered-twice", "%d entries for one datagram" % len(entries), m)
        bd, ad = dict(before), dict(after)
        for k in ad:
            if k not in bd and not (auth_ok and k == pk_field):
                ctx.violation("verified-peer-without-signature/%s+%s" % (mname, situation),
                              "key %s became a verified peer through a datagram not signed by it" % k.hex()[20:40], m)
            elif k in bd and ad[k] != bd[k] and not (auth_ok and k == pk_field):
                ctx.violation("verified-peer-address-moved-without-signature/%s+%s" % (mname, situation),
                              "the entry of verified peer %s changed (%r -> %r) through a datagram without its signature" % (
                                  k.hex()[20:40], bd[k][1], ad[k][1]), m)
        for k in bd:
            if k not in ad:
                ctx.violation("verified-peer-dropped-by-decorator", "key %s disappeared" % k.hex()[20:40], m)
        if len(md) > 700:
            return
        try:
            if exc is not None:
                res = "Raise %s" % EXN.get(exc, "RuntimeError")
            else:
                res = "Ok [%s]" % "; ".join(entry_coq(e, pls, reg, md, pk_field) for e in entries)
            exp = "(%s, %s)" % (net_coq(after, pk_field), res)
            sit = "(%s, %s)" % (net_coq(before, pk_field), paddr_coq(paddr(src)))
            head = lets(md, pk_field) + "(%s, %s, KC, (%d, %s), d_, " % (lens, valids, KIND_NO[kind], classes_coq(pls, reg))
        except wire.Unsupported as e:
            ctx.broke("harness cannot render a decoded value", repr(e))
            return
        # one Coq case per datagram: the situations it was delivered in share its literal
        fk = (kind, i, md)
        if fk not in fans:
            fans[fk] = (head, [], [], [])
        fans[fk][1].append(sit)
        fans[fk][2].append(exp)
        fans[fk][3].append(m)

    fans = {}
    for (i, d, kind, pls, how) in valid:
        others = [o for o in all_valid_bytes if o is not d]
        r.shuffle(others)
        muts, n = few_mutations(r, d, others, wrong_key, ctx.quick)
        klen = int.from_bytes(d[23:25], "big")
        body = d[:-64]
        # off-by-one ranges: signatures (by the carried key's owner A) over a shorter / longer part than all preceding bytes
        akey = A.overlays[i].my_peer.key
        if d[25:25 + klen] == akey.pub().key_to_bin() and how == "synthesised":
            muts.append(("signed-all-but-last-byte", body + ec.create_signature(akey, body[:-1])))
            muts.append(("signed-without-prefix", body + ec.create_signature(akey, body[22:])))
            muts.append(("signed-one-byte-more", body + b"\x00" + ec.create_signature(akey, body)))
        muts = [("unmutated", d)] + muts
        for (mname, md) in muts:
            sits = ["unknown", "known"] + [r.choice(SITUATIONS[2:])]
            if mname == "unmutated":
                sits = list(SITUATIONS)
            for situation in sits:
                src = srcs[0] if r.random() < 0.6 else r.choice(srcs)
                if situation.endswith("+others") and r.random() < 0.5:
                    src = UDPv4Address("10.7.7.7", 77)     # the address of ANOTHER verified peer
                one(i, kind, pls, mname, md, situation, src)
    for (i, d, kind, pls, how) in unsigned_valid:
        for (mname, md) in [("unmutated", d), ("truncate", d[:-1]), ("extend", d + b"\x00"), ("truncate", d[:24])]:
            for situation in ("unknown", "unknown+others"):
                one(i, kind, pls, mname, md, situation, r.choice(srcs))
        # an authentic signed datagram handed to an unsigned decorator, and the other way round
        if valid:
            j, d2, k2, p2, _ = r.choice(valid)
            one(j, kind, p2, "signed-datagram-to-unsigned-decorator", d2, "known", srcs[0])
            one(i, "signed", pls, "unsigned-datagram-to-signed-decorator", d, "unknown", srcs[0])
    for (head, sits, exps, ms) in fans.values():
        cases.append((head + "[%s])" % "; ".join(sits), "[%s])" % "; ".join(exps)))
        meta.append({"kind": "decorator-fan", "mutation": ms[0]["mutation"], "situations": ms})
    ctx.extra["auth_gen_decorator_deliveries"] = sum(len(f[1]) for f in fans.values())
    ctx.extra["auth_gen_outcomes"] = {k: v for k, v in stats.items() if k in ("entered", "rejected")}
    ctx.extra["auth_gen_situations"] = stats["by_situation"]
    ctx.extra["auth_gen_mutations"] = stats["by_mutation"]
    if cases:
        ctx.sample({"decorator_case": meta[0], "expected": cases[0][1][:400]})

    timing["decorators_s"] = round(time.time() - t0, 1)
    # ---- (E) _ez_unpack_auth
    ez_cases, ez_meta = [], []
    ez_cls = "[" + "; ".join(wire.fmt_coq(f) for f in wire.class_fmts(IntroductionRequestPayload, reg)) + "]"
    ez_fmts = wire.class_fmts(IntroductionRequestPayload, reg)
    shim_ir = wire.shim(IntroductionRequestPayload)
    for (i, d, kind, pls, how) in valid:
        if d[22] not in (246,) or len(d) > 400:
            continue
        ov = B.overlays[i]
        others = [o for o in all_valid_bytes if o is not d]
        allm = c01.mutations(r, d, others, wrong_key, True)
        for (mname, md) in [("unmutated", d)] + r.sample(allm, min(len(allm), 40 if ctx.quick else 400)):
            if len(md) > 500:
                continue
            auth_ok, pk_field, lens, valids = oracle_tables(md)
            m = {"kind": "ez_unpack_auth", "overlay": type(ov).__name__, "mutation": mname, "data": md.hex()}
            before = net_state(ov.network)
            try:
                auth, gt, pl = ov._ez_unpack_auth(shim_ir, md)
                exp = "Ok (%s, [[VInt %d]; [%s]]))" % (kz(auth.public_key_bin, pk_field), gt.global_time,
                                                       "; ".join(wire.msg_vals_coq(ez_fmts, pl)))
                if not auth_ok or auth.public_key_bin != pk_field:
                    ctx.violation("ez_unpack_auth-accepts-unauthentic/%s" % mname,
                                  "_ez_unpack_auth returned for a datagram without a valid signature by its own key", m)
            except Exception as e:   # noqa
                exp = "Raise %s)" % EXN.get(type(e).__name__, "RuntimeError")
                if auth_ok and mname == "unmutated":
                    ctx.violation("authentic-datagram-rejected/ez_unpack_auth", "_ez_unpack_auth raised %r for an authentic datagram" % e, m)
            if net_state(ov.network) != before:
                ctx.violation("ez_unpack_auth-changes-network", "_ez_unpack_auth changed the verified-peer table", m)
            ctx.count(("ez", md), nontrivial=len(md) > 23)
            ez_cases.append((lets(md, pk_field) + "(%s, %s, KC, %s, d_)" % (lens, valids, ez_cls), exp))
            ez_meta.append(m)

    # ---- (S) the sender: ezr_pack
    pk_cases, pk_meta = [], []
    for (i, d, kind, pls, how) in (valid + unsigned_valid)[:: (2 if ctx.quick else 1)]:
        a = A.overlays[i]
        try:
            insts = [gen_class(r, p) for p in pls]
        except Exception:   # noqa
            continue
        for (mid, sg) in [(d[22], kind in ("signed", "signed_wd")), (d[22], False), (256, True), (-1, False)]:
            m = {"kind": "ezr_pack", "overlay": type(a).__name__, "msg_id": mid, "sig": sg}
            try:
                out = a.ezr_pack(mid, *insts, sig=sg)
                exp = "Ok %s" % zl(out)
                sigs = "[(%s, %s)]" % (zl(out[:-64]), zl(out[-64:])) if sg else "[]"
                if sg and not c01.independent_auth(out)[0]:
                    ctx.violation("own-datagram-not-authentic", "ezr_pack(sig=True) produced a datagram that does not verify", m)
            except Exception as e:   # noqa
                exp = "Raise %s" % EXN.get(type(e).__name__, "RuntimeError")
                sigs = "[]"
            try:
                ins = "[" + "; ".join("([%s], [%s])" % ("; ".join(wire.fmt_coq(f) for f in wire.class_fmts(type(x), reg)),
                                                        "; ".join(wire.msg_vals_coq(wire.class_fmts(type(x), reg), x))) for x in insts) + "]"
            except wire.Unsupported:
                continue
            if len(exp) > 6000:
                continue
            pk_cases.append(("(KC, (%s, %s), %s, %s, %s, %s)" % (zl(a.get_prefix()), zl(a.my_peer.public_key.key_to_bin()), sigs,
                                                             ("%d" % mid if mid >= 0 else "(%d)" % mid), ins, "true" if sg else "false"), exp))
            pk_meta.append(m)
            ctx.count(("pack", type(a).__name__, mid, sg, exp), nontrivial=True)

    timing["ez_and_pack_s"] = round(time.time() - t0 - timing["decorators_s"], 1)
    t1 = time.time()
    # ---- (H) histories through the production receive path into the real handlers
    pool = []
    for (i, d, kind, pls, how) in valid:
        others = [o for o in all_valid_bytes if o is not d]
        pool.append(("unmutated", d))
        ms, _ = few_mutations(r, d, others, wrong_key, True)
        pool.extend(ms[:12])
    for (src, dst, d) in net.log:
        if dst == B.ep.addr and len(d) > 23 and d[22] == 246 and c01.independent_auth(d)[0]:
            pool.append(("unmutated-raw246", d))
            for p in (30, len(d) - 70, len(d) - 3):
                b = bytearray(d)
                b[p] ^= 0x10
                pool.append(("bitflip-raw246", bytes(b)))
    n_hist = 60 if ctx.quick else 600
    hsrcs = [("10.0.0.1", 1000), ("10.6.6.6", 666), ("10.4.4.4", 44)]
    hstats = {"histories": 0, "deliveries": 0, "authentic": 0, "table_changes": 0}

    def tables():
        return [{k: (st[1]) for k, st in net_state(ov.network)} for ov in B.overlays]
    for h in range(n_hist if pool else 0):
        L = r.choice([3, 6, 10, 16])
        seq = [(r.choice(pool), r.choice(hsrcs)) for _ in range(L)]
        if r.random() < 0.5:
            # start from a receiver that forgot everybody
            for ov in B.overlays:
                for p in list(ov.network.verified_peers):
                    ov.network.remove_peer(p)
        before = tables()
        signed_keys = [set() for _ in B.overlays]
        for ((mname, md), src) in seq:
            B.feed_from(src, md)
            await asyncio.sleep(0)
            ok, pk = c01.independent_auth(md)
            hstats["deliveries"] += 1
            if ok and md[:22] in prefix_to_idx:
                signed_keys[prefix_to_idx[md[:22]]].add(pk)
                hstats["authentic"] += 1
        after = tables()
        hstats["histories"] += 1
        m = {"kind": "history", "deliveries": [{"mutation": mn, "data": md.hex(), "src": list(src)} for ((mn, md), src) in seq]}
        ctx.count(("hist", tuple(md for ((_, md), _) in seq)), nontrivial=True)
        for j, ov in enumerate(B.overlays):
            for k in after[j]:
                if k not in before[j]:
                    hstats["table_changes"] += 1
                    if k not in signed_keys[j]:
                        ctx.violation("history/verified-peer-without-signature",
                                      "%s: key %s became a verified peer over a history without a datagram signed by it" % (
                                          type(ov).__name__, k.hex()[20:40]), m)
                elif after[j][k] != before[j][k]:
                    hstats["table_changes"] += 1
                    if k not in signed_keys[j]:
                        ctx.violation("history/verified-peer-address-moved-without-signature",
                                      "%s: the addresses of verified peer %s changed (%r -> %r) over a history without a datagram "
                                      "signed by it" % (type(ov).__name__, k.hex()[20:40], before[j][k], after[j][k]), m)
    ctx.extra["auth_gen_histories"] = hstats
    timing["histories_s"] = round(time.time() - t1, 1)
    t1 = time.time()

    # ---- evaluate the generated model inside Coq
    if text is not None:
        ok, log, _, _ = coqrun.make(["model/M01_auth_gen.vo"])      # (a no-op when the caller's proof stage just built it)
        if not ok:
            ctx.broke("the generated model no longer compiles (gen/G01_auth.v under model/M01_auth_gen.v)", log[-3000:])
            text = None
    if text is not None:
        for (label, fn, eqb, cs, ctype, mt) in [
                ("dec", "run_auth_gen_fan", "list_eqb auth_gen_eqb", cases,
                 "auth_gen_fan * list (netst * res (list (cfirst * list arg)))", meta),
                ("ez", "run_ez_gen", "res_eqb_loose ez_gen_eqb", ez_cases, "ez_gen_case * res (bytes * list pobj)", ez_meta),
                ("pack", "run_pack_gen", "res_eqb_loose bytes_eqb", pk_cases, "pack_gen_case * res bytes", pk_meta)]:
            if not cs:
                continue
            mism, errs = coqrun.eval_mismatches(IMPORTS, fn, eqb, cs, os.path.join(ctx.scratch, "ag_" + label),
                                                ctype=ctype, shard=120, jobs=14, preamble=preamble)
            for e in errs:
                ctx.broke("model evaluation failed (generated auth model, %s)" % label, e)
            if mism:
                out = coqrun.eval_terms(IMPORTS, [("%s (fst (%s, %s))" if cs[k][0].startswith("let ") else "%s (fst ((%s, %s)))") % (
                    fn, cs[k][0], cs[k][1]) for k in mism[:2]], os.path.join(ctx.scratch, "ag_dbg"), preamble=preamble)
                ctx.extra["auth_gen_model_says_" + label] = out[-3000:]
                ctx.extra["auth_gen_impl_says_" + label] = [cs[k][1][-1500:] for k in mism[:2]]
            for k in mism[:8]:
                ctx.broke("correspondence: translated %s and implementation differ (%s)" % (
                    {"dec": "decorator", "ez": "_ez_unpack_auth", "pack": "ezr_pack"}[label], mt[k].get("mutation", mt[k].get("msg_id"))),
                    json.dumps(mt[k])[:900])
            weight = lambda k: len(mt[k].get("situations", [0]))   # noqa: E731  (a fan holds several deliveries)
            ctx.coverage["traces_validated_against_impl"] += sum(weight(k) for k in range(len(cs)) if k not in set(mism))
            ctx.extra["auth_gen_cases_" + label] = len(cs)
    timing["coq_eval_s"] = round(time.time() - t1, 1)
    ctx.extra["auth_gen_timing"] = timing
    A.restore()
    B.restore()
    for nd in (A, B):
        for ov in nd.overlays:
            try:
                await ov.unload()
            except Exception:   # noqa
                pass
    ctx.coverage["rule"] = (ctx.coverage.get("rule", "") + " | translated decorators: authentic datagrams of every decorated id of every "
                            "shipped overlay (captured + synthesised) and mutants (bit flips, truncation, extension, key substitution, "
                            "foreign signature, transplant, splice, off-by-one signed ranges) fed to the real decorators on a recorder, "
                            "each with the carried key unknown / already verified at another address (plain, frozen, among other peers), "
                            "from several source address classes; _ez_unpack_auth on mutants of message 246; ezr_pack on generated "
                            "payloads; histories of 3-16 datagrams through notify_listeners into the real handlers").strip(" |")


def _src_of(c):
    from ipv8.messaging.interfaces.udp.endpoint import UDPv4Address, UDPv6Address
    host, port, tag = c["src"]
    return UDPv6Address(host, port) if tag == 0 else UDPv4Address(host, port) if tag == 1 else (host, port)


def replay_case(c):
    """re-run one recorded witness on the implementation; returns 1 if it still shows the defect"""
    from tools.checks import c01, c03
    if c.get("kind") == "decorator":
        from ipv8.keyvault.crypto import default_eccrypto as ec
        from ipv8.dht.community import DHTCommunity
        from ipv8.messaging.anonymization.community import TunnelCommunity
        import random
        data = bytes.fromhex(c["data"])
        auth_ok, pk = c01.independent_auth(data)
        print("  decorator %s of %s id %s, %s, key %s: independent signature check of the recorded datagram: %s" % (
            c["decorator"], c["overlay"], c["msg_id"], c["mutation"], c["situation"], auth_ok))
        loop = asyncio.new_event_loop()
        asyncio.set_event_loop(loop)
        out = {}

        async def go():
            net = simnet.SimNet()
            ep = net.endpoint(("10.0.0.2", 1000))
            for cls, kw in c03.overlay_classes() + [(TunnelCommunity, {}), (DHTCommunity, {})]:
                if cls.__name__ != c["overlay"]:
                    continue
                ov = simnet.make_overlay(cls, ep, **kw)
                kind, pls = handler_kind(ov.decode_map[c["msg_id"]], decorator_codes()) if c["msg_id"] is not None and \
                    ov.decode_map[c["msg_id"]] is not None else ("raw", ())
                if kind == "raw" or c["mutation"].endswith("-decorator"):
                    kind, pls = c["decorator"], pls
                other = ec.generate_key("curve25519").pub().key_to_bin()
                nw, known = scratch_network(c["situation"], pk, other, random.Random(0))
                before = net_state(nw)
                exc, entries = run_decorator(ov, c["decorator"], tuple(wire.shim(p) for p in pls), nw, _src_of(c), data)
                out.update(exc=exc, entries=entries, before=before, after=net_state(nw))
                await ov.unload()
                return
        import logging
        logging.disable(logging.CRITICAL)
        loop.run_until_complete(go())
        loop.close()
        if not out:
            print("  overlay class not found")
            return 1
        bad = 0
        for (snap, args, kw, first) in out["entries"]:
            if snap[0] == "peer" and (not auth_ok or snap[1] != pk):
                print("  STILL: the decorated function is entered with Peer %s" % snap[1].hex()[20:40])
                bad = 1
        if c["decorator"] in ("signed", "signed_wd") and auth_ok and not out["entries"]:
            print("  STILL: the authentic datagram is rejected (%s)" % out["exc"])
            bad = 1
        bd, ad = dict(out["before"]), dict(out["after"])
        for k in ad:
            if (k not in bd or ad[k] != bd[k]) and not (auth_ok and k == pk):
                print("  STILL: the verified-peer entry of %s changed: %r -> %r" % (k.hex()[20:40], bd.get(k), ad[k]))
                bad = 1
        if not bad:
            print("  the implementation now treats this datagram correctly (%s)" % (out["exc"] or "accepted"))
        return bad
    if c.get("kind") in ("ez_unpack_auth", "datagram"):
        ok, pk = c01.independent_auth(bytes.fromhex(c["data"]))
        print("  independent signature check of the recorded datagram:", ok)
        return 1
    if c.get("kind") == "history":
        for d in c["deliveries"]:
            ok, pk = c01.independent_auth(bytes.fromhex(d["data"]))
            print("  delivery %-40s authentic=%s key=%s" % (d["mutation"], ok, pk.hex()[20:40] if pk else None))
        return 1
    return 0
