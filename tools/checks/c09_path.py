"""C09, path level - executable tie of coq/model/M09_network.v to the implementation.

`stage(ctx)` runs a handful of the C09 teardown scenarios (real TunnelCommunity nodes, timed lossy network,
virtual clock: tools/vlib/reclaim_harness.py, scenario pieces of tools/checks/c09.py), turns each observed
NETWORK history - every segment of every node in global order, every delivery tied to the datagram that was
sent - into a trace of the network model and lets Coq (vm_compute, `run_ncase`)

  * replay it through `nstep` in lockstep: the acting node's event loop is on time, the delivered message is
    the one the model has in flight at that index (source, circuit id, relay_early), the node's outputs agree;
  * compare the tables of every node with the implementation's at the quiet point (the teardown at the
    originator) and at the deadline;
  * evaluate the HYPOTHESES of props/C09_path.v `path_bounded_reclaim_partial` on the observed history
    (`quiet_shape_b` at the quiet point, `nrun_ok` - timely, message life-time <= D, typed decryption, no new
    traffic for the ids of the path - on every step after it, `all_on_time` at the deadline), and its
    conclusion (`net_holds = false` at T > tq + B_path).

The oracle is independent of the model: at the first instant after tq + B_path no node of the implementation may
hold an entry for an id of the path (violation key `path-not-reclaimed/deadline`).
"""
from __future__ import annotations

import asyncio
import itertools
import json
import multiprocessing
import os
import random

from tools.checks import c09
from tools.vlib import coqrun
from tools.vlib.coqrun import cb, cz

IMPORTS = ("From Coq Require Import ZArith List Bool.\n"
           "From IPV8V Require Import lib.PyErr gen.G09_rules model.M09_reclaim model.M09_harness model.M09_network.\n"
           "Import ListNotations.\nOpen Scope Z_scope.\n")

TPS, LAT, DMAX, T_CREATE = c09.TPS, c09.LAT, c09.DMAX, c09.T_CREATE
D_LIFE = LAT + DMAX            # no fault script delays a datagram by more

CODES = {10: "tables differ at the quiet point", 11: "quiet_shape_b does not hold at the quiet point",
         12: "a step after the quiet point breaks an assumption of the theorem (nrun_ok)",
         13: "tables differ at the deadline", 14: "a node was not served up to the deadline (all_on_time)",
         15: "deadline not beyond the bound (harness)", 16: "the model still holds an entry at the deadline"}


def explain(code):
    if code in CODES:
        return CODES[code]
    part = "after" if code >= 500000 else "before"
    code %= 500000
    why = {1: "outputs differ", 3: "event loop late", 4: "delivered message is not the one in flight"}.get(code // 1000, "?")
    return "%s the quiet point, step %d: %s" % (part, code % 1000, why)


# ================================================================================ history -> network trace
class Flight:
    """mirror of the model's list of messages in flight (same order: appended as sent, removed when taken)"""

    def __init__(self, w):
        self.w = w
        self.items = []        # dicts: src, dst, data, left (deliveries still planned)
        self.sent = 0          # index into w.net.msgs / w.net.log

    def add(self, src, dst, data):
        info = self.w.net.msgs[self.sent]
        log = self.w.net.log[self.sent]
        self.sent += 1
        if bytes(log[2]) != bytes(data) or info["src"] != src or info["dst"] != dst:
            raise AssertionError("send order of the network and of the segments disagree")
        self.items.append({"src": src, "dst": dst, "data": bytes(data), "left": len(info["delays"]), "t": info["t"],
                           "delays": list(info["delays"])})
        return len(self.items) - 1

    def find(self, src, dst, data):
        for i, m in enumerate(self.items):
            if m["left"] > 0 and m["src"] == src and m["dst"] == dst and m["data"] == data:
                return i
        return None


def label_c(lab):
    k = lab[0]
    if k == "deliver":
        _, i, keep, plain, ln, cr, lens = lab
        crc = "CFail" if cr == "fail" else "CEmpty" if cr == "empty" else "(COk %s)" % c09.msg_c(cr)
        return "(NDeliver %d%%nat %s %s %s %s %s)" % (i, cb(keep), cb(plain), cz(ln), crc, c09.zl(lens))
    if k == "drop":
        return "(NDrop %d%%nat)" % lab[1]
    return "(NLocal %s %s)" % (cz(lab[1]), c09.ev_c(lab[2]))


def obs_c(t, lab, expect, outs):
    x = "None" if expect is None else "(Some (%s, %s, %s))" % (cz(expect[0]), cz(expect[1]), cb(expect[2]))
    return "(%s, %s, %s, [%s])" % (cz(t), label_c(lab), x, "; ".join(c09.out_c(o) for o in outs))


def network_history(w, rn):
    """-> (list of (t, label, expect, outs) in global order, problems)"""
    fl = Flight(w)
    hist, problems = [], []
    for sg in sorted(w.segs, key=lambda s: s.seq):
        i = w.nid(sg.node)
        e = c09.seg_event(w, sg)
        sends = [a for a in sg.aux if a[0] == "send"]
        if e is None:
            for a in sends:
                problems.append("datagram sent by a segment the model does not have (%s)" % sg.kind)
                fl.sent += 1
            continue
        if e[0] == "run" and e[1] == 9999:
            problems.append("deferred task not found in the bookkeeping: %s" % sg.kind)
        outs = [c09.rename_out(o, rn) for o in c09.seg_outs(w, sg)]
        er = c09.rename_event(e, rn)
        expect = None
        if e[0] in ("cell", "destroy"):
            j = fl.find(sg.args["src"], i, bytes(sg.args["data"]))
            if j is None:
                problems.append("delivered datagram not found among those in flight (node %d, t=%d)" % (i, sg.t))
                lab = ("local", i, er)
            else:
                m = fl.items[j]
                m["left"] -= 1
                keep = m["left"] > 0
                if sg.t > m["t"] + D_LIFE:
                    problems.append("datagram delivered %d ticks after it was sent" % (sg.t - m["t"]))
                if e[0] == "cell":
                    lab = ("deliver", j, keep, er[3], er[5], er[6], er[7])
                    expect = (er[1], er[2], er[4])
                else:
                    lab = ("deliver", j, keep, False, 0, "fail", [])
                    expect = (er[1], er[2], False)
                if not keep:
                    fl.items.pop(j)
        else:
            lab = ("local", i, er)
        hist.append((sg.t, lab, expect, outs))
        for a in sends:
            j = fl.add(i, a[1], a[2])
            if fl.items[j]["left"] == 0:          # the fault script lost it
                hist.append((sg.t, ("drop", j), None, []))
                fl.items.pop(j)
    return hist, problems


def snapshot(w, upto_t, rn):
    """the last abstraction of every node taken at an instant <= upto_t"""
    last = {}
    for t, segs, post in w.instants:
        if t > upto_t:
            break
        for i, a in post.items():
            last[i] = a
    out = []
    for i in range(len(w.nodes)):
        a = last.get(i)
        st = c09.empty_state(0) if a is None else c09.rename_state(a, rn)
        out.append((i, st))
    return out


def nodes_c(snap):
    return "[%s]" % ";\n   ".join("(%s, %s)" % (cz(i), c09.node_c(st)) for i, st in snap)


def holds_path(snap, ids):
    bad = []
    for i, st in snap:
        for tab in ("circuits", "relays", "exits"):
            for e in st[tab]:
                if e[0] in ids:
                    bad.append((i, tab, e[0]))
    return bad


# ================================================================================ the scenarios
async def _scenario(loop, spec):
    from tools.vlib import reclaim_harness as rh
    random.seed(spec.get("seed", 0) * 1000003 + 17)
    w = rh.World(loop, settings=dict(spec.get("settings") or {}), latency=LAT)
    w.crashed = None
    state = {}
    w.net.policy = c09.make_policy(spec, w, state)
    await w.start()
    hops, phase = spec["hops"], spec["phase"]
    await loop.advance(T_CREATE / TPS)
    c = w.api_create(hops)
    if c is None:
        await w.stop()
        return {"error": "no circuit"}
    t_td = 2 * TPS if phase == "ready" else 4 * TPS
    now = T_CREATE
    if phase == "transfer":
        t = TPS
        while t < t_td:
            await loop.advance((t - now) / TPS)
            now = t
            if c.state == "READY" and c.circuit_id in w.origin.circuits:
                w.api_send_data(c, ("1.2.3.4", 5), c09.BT_DATA)
                for n in w.nodes:
                    for cid, sock in list(n.exit_sockets.items()):
                        if sock.enabled and sock.transport_ipv4 is not None:
                            w.api_outside(n, cid, c09.BT_DATA)
            t += TPS // 2
    await loop.advance((t_td - now) / TPS)
    built = c.state == "READY"
    path = c09.path_of(w, c)
    n0 = w.origin
    mi, sw, d = rh.tk(n0.settings.max_time_inactive), rh.tk(5), rh.tk(n0.settings.remove_tunnel_delay)
    b_entry = mi + sw + d
    destroy = {"destroy": 2, "silent": 0}[spec["mode"]]
    pos = spec.get("pos", 0)
    fault = spec.get("fault", "teardown")
    link_ids = [p[2][0] for p in path[1:]]          # id of the link that leads to each hop
    dead = []
    if fault == "teardown" and pos == 0:
        # torn down at the originator: the quiet point is the teardown itself
        if c.circuit_id in w.origin.circuits:
            w.api_remove(w.origin, "C", c.circuit_id, destroy)
        j = 0
        t_state = tq = rh.tk(loop.time())
    else:
        # the path breaks at position j while the originator stays alive and goes on pinging: the node there drops
        # everything it holds (teardown), the link that leads to it goes dead (cut), or the node is isolated
        # (crash: every link it is on goes dead).  The state is taken remove_tunnel_delay later (entries of the
        # node gone, no relay still holding the exit socket it had during the handshake);
        # tq = L + B_entry with L = that moment + j * D
        if fault == "teardown":
            j = min(pos, len(path) - 1)
            c09.tear_down(w, path[j][0], destroy)
        elif fault == "cut":
            j = min(max(pos, 1), len(path) - 1)
            state["cut"] = (path[j - 1][0], path[j][0])
            dead = [link_ids[j - 1]]
        else:
            k = min(pos, len(path) - 1)
            w.crashed = state["crashed"] = path[k][0]
            j = max(k, 1)
            dead = [link_ids[i] for i in (k - 1, k) if 0 <= i < len(link_ids)]
        await loop.advance((d + TPS // 8) / TPS)
        t_state = rh.tk(loop.time())
        tq = t_state + j * D_LIFE + b_entry
    b_path = 2 * (len(path) - 1) * D_LIFE + b_entry
    await loop.advance((tq + b_path + TPS // 2 - t_state) / TPS)
    t_end = rh.tk(loop.time())
    rn = c09.Renamer()
    ids = []
    for nid, role, cids in path:
        for x in cids:
            rn(x)
    hist, problems = network_history(w, rn)
    # the path in the model's terms: originator, then (node, id of the link leading to it)
    hopsl = [(p[0], rn(p[2][0])) for p in path[1:]]
    ids = [x[1] for x in hopsl]
    mid = snapshot(w, t_state, rn)
    end = snapshot(w, t_end, rn)
    before = [h for h in hist if h[0] <= t_state]
    after = [h for h in hist if h[0] > t_state]
    res = {"built": built, "path": [(p[0], p[1]) for p in path], "tq": tq, "j": j, "dead": len(dead), "t_state": t_state, "T": t_end, "events": len(hist),
           "deliveries": sum(1 for h in hist if h[1][0] == "deliver"), "drops": sum(1 for h in hist if h[1][0] == "drop"),
           "dups": sum(1 for h in hist if h[1][0] == "deliver" and h[1][2]),
           "after_deliveries_path": sum(1 for h in after if h[1][0] == "deliver" and h[2] and h[2][1] in ids),
           "problems": problems + ["stray activity: %r" % (s,) for s in w.stray[:3]],
           "left": holds_path(end, set(ids)), "held_at_tq": len(holds_path(mid, set(ids)))}
    case = ("(mkNCase %s [%s] (mkPath %s [%s]) %s %d%%nat [%s] %s %s\n [%s]\n %s\n [%s]\n %s)" % (
        c09.settings_c(c09.node_settings(n0)), "; ".join(cz(i) for i in range(len(w.nodes))),
        cz(path[0][0]), "; ".join("(%s, %s)" % (cz(a), cz(b)) for a, b in hopsl), cz(tq), j, "; ".join(cz(rn(x)) for x in dead), cz(D_LIFE), cz(t_end),
        ";\n  ".join(obs_c(*h) for h in before), nodes_c(mid), ";\n  ".join(obs_c(*h) for h in after), nodes_c(end)))
    res["case"] = case
    await w.stop()
    return res


# ================================================================================ circuits under construction
def family_of(w, c, rn, hops):
    """the ids that hang off circuit c: [(id, level, upper end, id it was extended from, lower ends)]"""
    x0 = c.circuit_id
    fam = {x0: [1, 0, None, []]}
    for m in w.net.msgs:
        if m["tag"] == "create" and m["src"] == 0 and m.get("cid") == x0 and m["dst"] not in fam[x0][3]:
            fam[x0][3].append(m["dst"])
    order = [x0]
    for sg in sorted(w.segs, key=lambda s: s.seq):
        if sg.kind != "RunExtend" or sg.args.get("index") is None:
            continue
        fresh = next((a[1] for a in sg.aux if a[0] == "fresh_cid"), None)
        target = next((a[1] for a in sg.aux if a[0] == "send"), None)
        x = sg.args["cid"]
        if fresh is None or target is None or x not in fam:
            continue
        if fresh not in fam:
            fam[fresh] = [fam[x][0] + 1, w.nid(sg.node), x, [target]]
            order.append(fresh)
        elif target not in fam[fresh][3]:
            fam[fresh][3].append(target)
    return [(rn(x), fam[x][0], fam[x][1], None if fam[x][2] is None else rn(fam[x][2]), fam[x][3]) for x in order]


def family_c(fam):
    return "[%s]" % "; ".join("(%s, mkF %d%%nat %s %s [%s])" % (
        cz(x), lvl, cz(par), "None" if frm is None else "(Some %s)" % cz(frm), "; ".join(cz(t) for t in tg))
        for x, lvl, par, frm, tg in fam)


async def _bscenario(loop, spec):
    from tools.vlib import reclaim_harness as rh
    random.seed(spec.get("seed", 0) * 1000003 + 17)
    w = rh.World(loop, settings=dict(spec.get("settings") or {}), latency=LAT)
    w.crashed = None
    state = {}
    base_policy = c09.make_policy(spec, w, state)
    starve = spec.get("starve")

    def policy(info):
        # 'inner': the answers of the nodes asked to join by a relay never arrive (the relay keeps extending with
        # fresh ids); 'outer': nothing ever comes back to the originator
        if starve == "inner" and info["tag"] == "created" and info["dst"] != 0:
            return []
        if starve == "outer" and info["tag"] in ("created", "extended") and info["dst"] == 0:
            return []
        return base_policy(info)
    w.net.policy = policy
    await w.start()
    hops = spec["hops"]
    await loop.advance(T_CREATE / TPS)
    c = w.api_create(hops)
    if c is None:
        await w.stop()
        return {"error": "no circuit"}
    n0 = w.origin
    mi, sw, d = rh.tk(n0.settings.max_time_inactive), rh.tk(5), rh.tk(n0.settings.remove_tunnel_delay)
    nht = rh.tk(n0.settings.next_hop_timeout)
    tries0 = int(n0.settings.circuit_timeout // n0.settings.next_hop_timeout)
    bb = nht * (tries0 + hops - 1)
    b_path = 2 * hops * D_LIFE + mi + sw + d
    tq1 = T_CREATE + bb + d                     # counted from the creation of the circuit
    t_td = None
    ready_seen = False
    if spec.get("k") is not None:
        # the originator gives up (or vanishes) in the middle of the construction, after k hops
        t_td = spec.get("t_td", c09.half_time(spec["k"]))
        await loop.advance((t_td - T_CREATE) / TPS)
        ready_seen = c.state == "READY"
        if spec.get("end") == "crash":
            w.crashed = state["crashed"] = 0
        elif c.circuit_id in w.origin.circuits:
            w.api_remove(w.origin, "C", c.circuit_id, {"destroy": 2, "silent": 0}[spec.get("mode", "destroy")])
        t_td = rh.tk(loop.time())
    t_stop = tq1 + b_path + TPS // 2
    step = TPS
    while rh.tk(loop.time()) < t_stop:
        await loop.advance(min(step, t_stop - rh.tk(loop.time())) / TPS)
        if c.state == "READY" and c.circuit_id in w.origin.circuits and not w.origin.circuits[c.circuit_id]._closing:
            ready_seen = True
    t_end = rh.tk(loop.time())
    rn = c09.Renamer()
    rn(c.circuit_id)
    fam = family_of(w, c, rn, hops)
    ids = set(x[0] for x in fam)
    hist, problems = network_history(w, rn)
    end = snapshot(w, t_end, rn)
    names = "; ".join(cz(i) for i in range(len(w.nodes)))
    res = {"built": True, "ready": ready_seen, "family": [(x[0], x[1], x[2]) for x in fam], "events": len(hist),
           "deliveries": sum(1 for h in hist if h[1][0] == "deliver"), "drops": sum(1 for h in hist if h[1][0] == "drop"),
           "dups": sum(1 for h in hist if h[1][0] == "deliver" and h[1][2]), "T": t_end, "tq": tq1,
           "problems": problems + ["stray activity: %r" % (s,) for s in w.stray[:3]],
           "left": holds_path(end, ids), "cases": []}
    crashed_origin = spec.get("end") == "crash"
    if not ready_seen:
        # (1) from the creation of the circuit: the whole history is the run, the family starts unused
        empty = [(i, c09.empty_state(0)) for i in range(len(w.nodes))]
        res["cases"].append(("from-creation", "(mkBCase %s [%s] %s 0 %s %d%%nat %s %s %s\n []\n %s\n [%s]\n %s)" % (
            c09.settings_c(c09.node_settings(n0)), names, family_c(fam), cz(rn(c.circuit_id)), hops, cz(tq1),
            cz(D_LIFE), cz(t_end), nodes_c(empty), ";\n  ".join(obs_c(*h) for h in hist), nodes_c(end))))
    if t_td is not None and not ready_seen and not crashed_origin and spec.get("also_quiet", True):
        # (2) from the moment the originator gave up, with whatever the handshake left behind
        mid = snapshot(w, t_td, rn)
        before = [h for h in hist if h[0] <= t_td]
        after = [h for h in hist if h[0] > t_td]
        res["held_at_tq"] = len(holds_path(mid, ids))
        res["cases"].append(("from-teardown", "(mkBCase %s [%s] %s 0 %s %d%%nat %s %s %s\n [%s]\n %s\n [%s]\n %s)" % (
            c09.settings_c(c09.node_settings(n0)), names, family_c(fam), cz(rn(c.circuit_id)), hops, cz(t_td),
            cz(D_LIFE), cz(t_end), ";\n  ".join(obs_c(*h) for h in before), nodes_c(mid),
            ";\n  ".join(obs_c(*h) for h in after), nodes_c(end))))
    await w.stop()
    return res


def run_bscenario(spec):
    from tools.vlib.vtime import VLoop, patched_time
    loop = VLoop()
    asyncio.set_event_loop(loop)
    try:
        with patched_time(loop):
            return loop.run_until_complete(_bscenario(loop, spec))
    finally:
        try:
            loop.run_until_complete(asyncio.sleep(0))
        except Exception:   # noqa
            pass
        loop.close()


def _bjob(job):
    """a base building scenario and, if asked, its variants with every small subset of the handshake messages of
    the fault-free run lost, and single duplications of the answers"""
    out = []
    try:
        base = job["base"]
        r0 = run_bscenario(dict(base, faults=[]))
        out.append((dict(base, faults=[]), r0))
        if job.get("enumerate") and not r0.get("error"):
            # handshake messages of the fault-free run, from the network log of a second, silent run
            msgs = _handshake_messages(dict(base, faults=[]))
            variants = []
            for n in range(1, job["upto"] + 1):
                for sub in itertools.combinations(msgs, n):
                    if n >= 2 and job.get("pair_sample") and (c09._stable_hash(sub) % job["pair_sample"]) != 0:
                        continue
                    variants.append([c09.fault_of(m) for m in sub])
            for m in msgs:
                if m[0] in ("created", "extended", "extend", "create"):
                    variants.append([c09.fault_of(m, "dup", 5 * LAT)])
                    if job.get("delays"):
                        variants.append([c09.fault_of(m, "delay", DMAX - 1)])
            for fs in variants:
                spec = dict(base, faults=fs, also_quiet=(len(fs) <= 1))
                out.append((spec, run_bscenario(spec)))
    except Exception:   # noqa
        import traceback
        out.append((job["base"], {"error": "scenario crashed: %s" % traceback.format_exc()[-1500:]}))
    return out


def _handshake_messages(spec):
    from tools.vlib.vtime import VLoop, patched_time

    async def go(loop):
        from tools.vlib import reclaim_harness as rh
        random.seed(spec.get("seed", 0) * 1000003 + 17)
        w = rh.World(loop, settings=dict(spec.get("settings") or {}), latency=LAT, record=False)
        w.crashed = None
        w.net.policy = c09.make_policy(spec, w, {})
        await w.start()
        await loop.advance(T_CREATE / TPS)
        w.api_create(spec["hops"])
        t_td = c09.half_time(spec["k"]) if spec.get("k") is not None else 2 * TPS
        await loop.advance((t_td + 4 * LAT - T_CREATE) / TPS)
        msgs = [(m["tag"], m["src"], m["dst"], m["occ"]) for m in w.net.msgs
                if m["tag"] in ("create", "created", "extend", "extended")]
        await w.stop()
        return msgs
    loop = VLoop()
    asyncio.set_event_loop(loop)
    try:
        with patched_time(loop):
            return loop.run_until_complete(go(loop))
    finally:
        loop.close()


def bscenarios(quick, seed0=0):
    jobs = []
    for h in (1, 2, 3):
        # the originator gives up after k hops: with a destroy, silently, or by vanishing
        for k in range(h):
            for mode in ("destroy", "silent"):
                base = {"hops": h, "k": k, "mode": mode, "seed": seed0 + 7000 + len(jobs), "family": "build-teardown"}
                jobs.append({"base": base, "enumerate": True, "upto": 2, "delays": not quick,
                             "pair_sample": (6 if h == 3 else 3) if quick else None})
            # ... or it vanishes (every message from and to it is lost) in the middle of the construction
            jobs.append({"base": {"hops": h, "k": k, "end": "crash", "seed": seed0 + 7300 + len(jobs),
                                  "family": "build-crash"}})
        # nobody gives up, but the answers never arrive: the originator retries with other candidates until the
        # retry budget of the code is spent
        for starve in (("outer",) if h == 1 else ("outer", "inner")):
            jobs.append({"base": {"hops": h, "starve": starve, "seed": seed0 + 7500 + len(jobs), "family": "build-starved"}})
            for k in range(0 if quick else 2):
                jobs.append({"base": {"hops": h, "starve": starve, "seed": seed0 + 7600 + 10 * len(jobs) + k,
                                      "family": "build-starved",
                                      "random": {"tags": ["create", "extend", "created", "extended", "ping", "pong"],
                                                 "drop": 0.15, "dup": 0.3, "delay": 0.3}}})
    return jobs


def run_scenario(spec):
    from tools.vlib.vtime import VLoop, patched_time
    loop = VLoop()
    asyncio.set_event_loop(loop)
    try:
        with patched_time(loop):
            return loop.run_until_complete(_scenario(loop, spec))
    finally:
        try:
            loop.run_until_complete(asyncio.sleep(0))
        except Exception:   # noqa
            pass
        loop.close()


def _job(spec):
    try:
        return spec, run_scenario(spec)
    except Exception as e:   # noqa
        import traceback
        return spec, {"error": "scenario crashed: %s" % traceback.format_exc()[-1500:]}


def scenarios(quick, seed0=0):
    """an idle or a busy circuit of 1..3 hops is torn down - with a destroy or silently - at the originator
    (pos 0) or at the node at position pos of its path while the originator stays alive, or a link of it is cut,
    or a node of it is isolated; fault-free, with every destroy lost, and with random loss / duplication / delay
    of all message kinds"""
    out = []
    for h in (1, 2, 3):
        for pos in range(h + 1):
            for phase in ("ready", "transfer"):
                for mode in ("destroy", "silent"):
                    if quick and pos > 0 and phase == "transfer" and mode == "silent":
                        continue
                    base = {"hops": h, "pos": pos, "phase": phase, "mode": mode, "seed": seed0 + len(out) + 1,
                            "family": "path"}
                    out.append(dict(base))
                    if mode == "destroy":
                        out.append(dict(base, random={"tags": ["destroy"], "drop": 1.0, "dup": 0.0, "delay": 0.0},
                                        seed=seed0 + len(out) + 1))
                    n_rand = 1 if quick else 5
                    for k in range(n_rand):
                        out.append(dict(base, seed=seed0 + 100 * len(out) + k,
                                        random={"tags": ["destroy", "ping", "pong", "data"], "drop": 0.15, "dup": 0.3,
                                                "delay": 0.3}))
    # nobody tears anything down: a link of the path goes dead, or a node of the path is isolated
    for h in (1, 2, 3):
        for fault, positions in (("cut", range(1, h + 1)), ("crash", range(0, h + 1))):
            for pos in positions:
                for phase in ("ready", "transfer"):
                    if quick and phase == "transfer" and pos not in (1, h):
                        continue
                    base = {"hops": h, "pos": pos, "fault": fault, "phase": phase, "mode": "silent",
                            "seed": seed0 + 5000 + len(out), "family": "path-" + fault}
                    out.append(dict(base))
                    for k in range(0 if quick else 2):
                        out.append(dict(base, seed=seed0 + 100 * len(out) + k,
                                        random={"tags": ["ping", "pong", "data"], "drop": 0.15, "dup": 0.3, "delay": 0.3}))
    return out


def stage(ctx, have_model=True):
    specs = scenarios(ctx.quick, 10000 * (ctx.seed - 1))
    procs = min(12, os.cpu_count() or 4)
    with multiprocessing.get_context("fork").Pool(procs) as pool:
        results = pool.map(_job, specs, chunksize=1)
    cases, owners = [], []
    stats = {"scenarios": 0, "built": 0, "events": 0, "deliveries": 0, "duplicates": 0, "dropped": 0,
             "path_cells_delivered_after_quiet_point": 0, "entries_held_at_quiet_point": 0}
    for spec, r in results:
        stats["scenarios"] += 1
        if r.get("error"):
            ctx.broke("path harness: %s" % r["error"][:200], spec)
            continue
        key = json.dumps(spec, sort_keys=True, default=str)
        ctx.count("path/" + key, nontrivial=bool(r["built"]))
        stats["built"] += bool(r["built"])
        stats["events"] += r["events"]
        stats["deliveries"] += r["deliveries"]
        stats["duplicates"] += r["dups"]
        stats["dropped"] += r["drops"]
        stats["path_cells_delivered_after_quiet_point"] += r["after_deliveries_path"]
        stats["entries_held_at_quiet_point"] += r["held_at_tq"]
        for pr in r["problems"]:
            ctx.broke("path harness bookkeeping: %s" % pr, spec)
        if r["left"]:
            ctx.violation("path-not-reclaimed/deadline",
                          "entries for ids of the path left at tq + B_path: %r (tq=%d, T=%d)" % (r["left"][:4], r["tq"], r["T"]),
                          {"spec": spec})
        cases.append(r["case"])
        owners.append(spec)
        if len(ctx.coverage["samples"]) < 6 and spec.get("random"):
            ctx.sample({"spec": spec, "path": r["path"], "events": r["events"], "deliveries": r["deliveries"],
                        "duplicates": r["dups"], "tq": r["tq"], "T": r["T"]})
    ctx.extra["path_stats"] = stats
    if have_model and cases:
        mism, errs = coqrun.eval_mismatches(IMPORTS, "run_ncase", "Z.eqb", [(c, "0") for c in cases],
                                            os.path.join(ctx.scratch, "pathnet"), shard=1, jobs=procs, max_bytes=400000)
        for e in errs[:3]:
            ctx.broke("path correspondence: Coq evaluation failed", e)
        for i in mism[:5]:
            out = coqrun.eval_terms(IMPORTS, ["run_ncase %s" % cases[i]], os.path.join(ctx.scratch, "pathnet"))
            m = __import__("re").search(r"=\s*(\d+)", out)
            code = int(m.group(1)) if m else -1
            ctx.broke("path correspondence: network model and implementation disagree (%s)" % explain(code),
                      {"spec": owners[i], "code": code})
        ctx.coverage["traces_validated_against_impl"] += len(cases) - len(mism)
    stage_building(ctx, have_model, procs)
    return stats


def stage_building(ctx, have_model, procs):
    """circuits under construction: hypotheses and conclusion of path_bounded_reclaim_building_partial on observed
    histories (from the creation of the circuit, and from the moment the originator gave up)"""
    jobs = bscenarios(ctx.quick, 10000 * (ctx.seed - 1))
    with multiprocessing.get_context("fork").Pool(procs) as pool:
        results = pool.map(_bjob, jobs, chunksize=1)
    cases, owners = [], []
    stats = {"scenarios": 0, "became_ready_out_of_scope": 0, "events": 0, "deliveries": 0, "duplicates": 0, "dropped": 0,
             "family_ids": 0, "largest_family": 0, "cases_from_creation": 0, "cases_from_teardown": 0}
    for jr in results:
        for spec, r in jr:
            stats["scenarios"] += 1
            if r.get("error"):
                ctx.broke("building harness: %s" % r["error"][:300], spec)
                continue
            key = json.dumps(spec, sort_keys=True, default=str)
            ctx.count("build/" + key, nontrivial=len(r["family"]) > 1 or r["deliveries"] > 2)
            stats["became_ready_out_of_scope"] += bool(r["ready"])
            stats["events"] += r["events"]
            stats["deliveries"] += r["deliveries"]
            stats["duplicates"] += r["dups"]
            stats["dropped"] += r["drops"]
            stats["family_ids"] += len(r["family"])
            stats["largest_family"] = max(stats["largest_family"], len(r["family"]))
            for pr in r["problems"]:
                ctx.broke("building harness bookkeeping: %s" % pr, spec)
            if r["left"] and not r["ready"]:
                ctx.violation("build-not-reclaimed/deadline",
                              "entries for ids of a circuit that never became ready left at creation + B_build: %r "
                              "(tq=%d, T=%d)" % (r["left"][:4], r["tq"], r["T"]), {"spec": spec, "building": True})
            for name, c in r["cases"]:
                stats["cases_" + name.replace("-", "_")] += 1
                cases.append(c)
                owners.append((name, spec))
            if len(ctx.coverage["samples"]) < 8 and len(r["family"]) > 2:
                ctx.sample({"spec": spec, "family": r["family"], "events": r["events"], "deliveries": r["deliveries"],
                            "tq": r["tq"], "T": r["T"]})
    ctx.extra["building_stats"] = stats
    if have_model and cases:
        mism, errs = coqrun.eval_mismatches(IMPORTS, "run_bcase", "Z.eqb", [(c, "0") for c in cases],
                                            os.path.join(ctx.scratch, "buildnet"), shard=1, jobs=procs, max_bytes=400000)
        for e in errs[:3]:
            ctx.broke("building correspondence: Coq evaluation failed", e)
        for i in mism[:5]:
            out = coqrun.eval_terms(IMPORTS, ["run_bcase %s" % cases[i]], os.path.join(ctx.scratch, "buildnet"))
            m = __import__("re").search(r"=\s*(\d+)", out)
            code = int(m.group(1)) if m else -1
            ctx.broke("building correspondence (%s): network model and implementation disagree (%s)" % (
                owners[i][0], explain(code)), {"spec": owners[i][1], "code": code})
        ctx.coverage["traces_validated_against_impl"] += len(cases) - len(mism)
    return stats


def replay_spec(spec):
    if "starve" in spec or "k" in spec:
        r = run_bscenario(spec)
        print("spec:", json.dumps(spec, default=str))
        if r.get("error"):
            print("  error:", r["error"])
            return 1
        print("  family=%s ready=%s tq=%d T=%d events=%d" % (r["family"], r["ready"], r["tq"], r["T"], r["events"]))
        if r["left"] and not r["ready"]:
            print("  STILL FAILS build-not-reclaimed/deadline :: %r" % (r["left"],))
            return 1
        print("  holds now")
        return 0
    r = run_scenario(spec)
    print("spec:", json.dumps(spec, default=str))
    if r.get("error"):
        print("  error:", r["error"])
        return 1
    print("  built=%s path=%s tq=%d T=%d events=%d" % (r["built"], r["path"], r["tq"], r["T"], r["events"]))
    if r["left"]:
        print("  STILL FAILS path-not-reclaimed/deadline :: %r" % (r["left"],))
        return 1
    print("  holds now")
    return 0
