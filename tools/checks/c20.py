"""C20 - compiled and dataclass payloads behave like their plain definition.

Stage P: props/C20.v (generated to_pack_list / from_unpack_list / __init__ = interpreted methods, for every
         well-formed definition; defaults under the render-faithfulness hypothesis; type_map)
Stage C: (1) the model's generator vs the real generator: the source text produced by _compile_init /
         _compile_from_unpack_list / _compile_to_pack_list is parsed and compared with gen_init / gen_unpack /
         gen_pack for every shipped VariablePayload definition and for generated definitions;
         (2) rendered defaults are evaluated and compared with the definition's defaults;
         (3) type_map vs the model on all annotation shapes;
Oracle : plain class, vp_compile'd copy and dataclass form, same constructor arguments -> same bytes, same
         decoded fields (real Serializer).
"""
from __future__ import annotations

import ast
import dataclasses
import json
import os
import typing

from tools.checks import c02
from tools.tr import tr_wire
from tools.vlib import coqrun, wire

IMPORTS = ("From Coq Require Import ZArith List Bool.\n"
           "From IPV8V Require Import lib.PyErr model.M20_vp.\n"
           "Import ListNotations.\n")


# ------------------------------------------------------------------ parsing the generated sources
class Unexpected(Exception):
    pass


def parse_init(src, names):
    fn = ast.parse(src).body[0]
    if not isinstance(fn, ast.FunctionDef) or fn.name != "__init__":
        raise Unexpected("init: not a function")
    a = fn.args
    if a.vararg or a.kwarg or a.kwonlyargs or a.posonlyargs or [x.arg for x in a.args][:1] != ["self"]:
        raise Unexpected("init: signature shape")
    params = [x.arg for x in a.args][1:]
    ndef = len(a.defaults)
    dflt = {}
    for p, dnode in zip(params[len(params) - ndef:], a.defaults):
        dflt[p] = ast.unparse(dnode)
    body = fn.body
    if ast.unparse(body[0]) != "Payload.__init__(self)":
        raise Unexpected("init: first statement")
    setters = [ast.unparse(s) for s in body[1:]]
    if setters != ["self.%s = %s" % (n, n) for n in names]:
        raise Unexpected("init: setters %r" % setters[:3])
    return params, dflt


def parse_unpack(src):
    fn = ast.parse(src).body[0]
    params = [x.arg for x in fn.args.args]
    if params[:1] != ["cls"] or len(fn.body) != 1 or not isinstance(fn.body[0], ast.Return):
        raise Unexpected("from_unpack_list: shape")
    call = fn.body[0].value
    if not (isinstance(call, ast.Call) and ast.unparse(call.func) == "cls" and not call.keywords):
        raise Unexpected("from_unpack_list: not cls(...)")
    out = []
    for a in call.args:
        if isinstance(a, ast.Name):
            out.append((a.id, False))
        elif isinstance(a, ast.IfExp):
            n = a.test.left.id if isinstance(a.test, ast.Compare) and isinstance(a.test.left, ast.Name) else None
            if n is None or ast.unparse(a) != "None if %s is None else cls.fix_unpack_%s(%s)" % (n, n, n):
                raise Unexpected("from_unpack_list: argument %s" % ast.unparse(a))
            out.append((n, True))
        else:
            raise Unexpected("from_unpack_list: argument %s" % ast.unparse(a))
    return params[1:], out


def parse_pack(src):
    fn = ast.parse(src).body[0]
    if [x.arg for x in fn.args.args] != ["self"] or len(fn.body) != 1 or not isinstance(fn.body[0], ast.Return) \
            or not isinstance(fn.body[0].value, ast.List):
        raise Unexpected("to_pack_list: shape")
    out = []
    for t in fn.body[0].value.elts:
        if not isinstance(t, ast.Tuple) or not isinstance(t.elts[0], ast.Constant):
            raise Unexpected("to_pack_list: item")
        items = []
        for e in t.elts[1:]:
            s = ast.unparse(e)
            if isinstance(e, ast.Attribute) and s.startswith("self."):
                items.append((s[5:], False))
            elif isinstance(e, ast.Call) and len(e.args) == 1:
                n = ast.unparse(e.args[0])[5:]
                if s != "self.fix_pack_%s(self.%s)" % (n, n):
                    raise Unexpected("to_pack_list: %s" % s)
                items.append((n, True))
            else:
                raise Unexpected("to_pack_list: %s" % s)
        out.append((t.elts[0].value, items))
    return out


# ------------------------------------------------------------------ definitions
class Defn:
    """format_list (strings / classes / [class]), names, defaults {name: value}, hooks {name: (pack, unpack)}"""

    def __init__(self, formats, names, defaults=None, hooks=None, label=""):
        self.formats, self.names, self.defaults, self.hooks, self.label = formats, names, defaults or {}, hooks or {}, label

    def build_plain(self, compiled):
        from ipv8.messaging.lazy_payload import VariablePayload, vp_compile
        ns = {"format_list": list(self.formats), "names": list(self.names)}
        for n, (fp, fu) in self.hooks.items():
            if fp is not None:
                ns["fix_pack_" + n] = (lambda self_, v, _f=fp: _f(v))
            if fu is not None:
                ns["fix_unpack_" + n] = classmethod(lambda cls_, v, _f=fu: _f(v))
        cls = type("Gen" + ("C" if compiled else "P"), (VariablePayload,), ns)
        return vp_compile(cls) if compiled else cls

    def build_defaults(self, defaults, compiled):
        """the definition with a hand-written constructor giving `defaults` {name: value} to a suffix of the fields
        (the way ipv8's own tests and users declare defaults on a VariablePayload)"""
        from ipv8.messaging.lazy_payload import VariablePayload, vp_compile
        params = ", ".join(n if n not in defaults else "%s=_d[%r]" % (n, n) for n in self.names)
        g = {"_d": dict(defaults), "_VP": VariablePayload}
        exec("def __init__(self, %s, **kwargs):\n    _VP.__init__(self, %s, **kwargs)\n" % (params, ", ".join(self.names)), g)
        ns = {"format_list": list(self.formats), "names": list(self.names), "__init__": g["__init__"]}
        cls = type("GenD" + ("C" if compiled else "P"), (VariablePayload,), ns)
        return vp_compile(cls) if compiled else cls

    def tags(self, table):
        out = []
        for f in self.formats:
            if isinstance(f, str):
                out.append("KStr %d %s" % (table.setdefault(f, len(table)), "true" if f == "bits" else "false"))
            elif isinstance(f, list):
                out.append("KPayloadList %d" % table.setdefault(f[0].__name__, len(table)))
            else:
                out.append("KPayload %d" % table.setdefault(f.__name__, len(table)))
        return out


def pname_coq(s, table):
    if s == "payload":
        return "PPayload"
    if s == "payload-list":
        return "PPayloadList"
    return "PStr %d" % table.setdefault(s, len(table))


HOOKS = {  # per-field rules: (fix_pack, fix_unpack, field value from a generated wire value); the wire value may be falsy
    "int": (lambda v: v - 1, lambda v: v + 1, lambda w: w + 1),
    "bytes": (lambda v: v[:-1], lambda v: v + b"!", lambda w: w + b"!"),
}


def kind_of_value(v):
    if isinstance(v, bool):
        return "bool"
    if isinstance(v, int):
        return "int"
    if isinstance(v, bytes):
        return "bytes"
    if isinstance(v, str):
        return "str"
    return "other"


def gen_definition(r, reg, pool):
    """1..12 fields over all registered formats incl. bits, nested payloads, lists"""
    nf = r.randrange(1, 9)
    formats = []
    usable = [n for n, d in reg.items() if d[0] not in ("payload", "payload-list", "raw", "node", "listof") or n == "varlenH-list"]
    for i in range(nf):
        x = r.random()
        if x < 0.12:
            formats.append("bits")
        elif x < 0.22:
            formats.append(r.choice(pool))
        elif x < 0.30:
            formats.append([r.choice(pool)])
        else:
            formats.append(r.choice(usable))
    if r.random() < 0.3:
        formats.append("raw")
    names = []
    for i, f in enumerate(formats):
        if f == "bits":
            names.extend("b%d_%d" % (i, j) for j in range(8))
        else:
            names.append("f%d" % i)
    return formats, names


# ------------------------------------------------------------------ the check
def run(ctx):
    try:
        tr_wire.write()
    except Exception as e:   # the wire registry is shared with C02
        ctx.broke("translator tr_wire aborted", repr(e))
    ctx.proofs()
    # extension: VariablePayload / the generators / vp_compile / payload_dataclass translated from the AST (gen/G20_vp.v),
    # theorems in props/C20x.v
    from tools.checks import c20_vp_gen
    xtext = c20_vp_gen.translate(ctx)
    if xtext is not None:
        ctx.proofs(part="C20x")
    ctx.coverage["trusted_base"] = [
        "Coq 8.16.1 kernel; no axioms",
        "model M20_vp of VariablePayload.__init__/to_pack_list/from_unpack_list and of the three code generators; the generator "
        "model is compared syntactically with the real generated source on every run",
        "CPython call binding / compile / exec / dataclasses mean what eval_init, eval_to_pack, eval_from_unpack say "
        "(validated by the behavioural oracle on the real classes)",
        "hypothesis of defaults_render_faithfully (eval(rendered default) = default) is checked on the implementation per literal kind",
    ]
    ctx.assumptions = ["decoders never yield None (the compiled None guard)", "per-field hooks are functions of the value only"]
    from ipv8.keyvault.crypto import default_eccrypto
    from ipv8.messaging import lazy_payload as lp
    from ipv8.messaging.lazy_payload import VariablePayload
    from ipv8.messaging.serialization import PackError
    from ipv8.messaging.payload_dataclass import DataClassPayload, type_from_format, type_map
    r = ctx.rng("main")
    ser = wire.make_serializer()
    reg = wire.registry_for_harness(ctx, ser)
    keys = [default_eccrypto.generate_key("curve25519").pub().key_to_bin() for _ in range(2)]
    gen_class = c02.make_gen_class(reg, keys)
    shipped = [c for c in tr_wire.shipped_classes() if issubclass(c, VariablePayload) and c.format_list]
    pool = [c for c in shipped if c.__name__ in ("IntroductionInfo", "SignedStrPayload", "RendezvousInfo", "DestroyPayload")]

    # ---- definitions: shipped ones and generated ones
    defs = []
    for c in shipped:
        hooks = {}
        for n in c.names:
            if hasattr(c, "fix_pack_" + n) or hasattr(c, "fix_unpack_" + n):
                hooks[n] = (getattr(c, "fix_pack_" + n, None), getattr(c, "fix_unpack_" + n, None))
        defs.append((Defn(c.format_list, c.names, {}, {}, c.__name__), c))
    ngen = 120 if ctx.quick else 2500
    default_kinds = [0, -7, 2 ** 40, True, None, 1.5, -0.25, b"", b"\x00\xffab", "", "abc", "it's \"q\"\n", "héé",
                     float("inf"), [], (1, 2)]
    for i in range(ngen):
        formats, names = gen_definition(r, reg, pool)
        d = Defn(formats, names, {}, {}, "gen%d" % i)
        defs.append((d, None))

    table, gcases, gmeta = {}, [], []
    for d, shipped_cls in defs:
        cls = shipped_cls or d.build_plain(False)
        # choose hooks by field kind (generated definitions only)
        if shipped_cls is None:
            fmts = wire.class_fmts(cls, reg)
            kinds = []
            for f in fmts:
                if f[0] == "bits":
                    kinds.extend(["int"] * 8)
                elif f[0] == "struct" and len(f[1]) == 1 and f[1][0][0] in ("U",):
                    kinds.append("int")
                elif f[0] in ("raw",) or (f[0] == "varlen" and not f[3]):
                    kinds.append("bytes")
                else:
                    kinds.append("other")
            d.hook_kinds = {}
            for n, k in zip(d.names, kinds):
                if k in ("bytes", "int") and r.random() < 0.4:
                    d.hooks[n] = HOOKS[k][:2]
                    d.hook_kinds[n] = k
            if d.hooks:
                cls = d.build_plain(False)
        # defaults on a random suffix of the names (for the generator comparison)
        ndef = r.choice([0, 0, 1, 2, len(d.names)])
        dnames = d.names[len(d.names) - ndef:] if ndef else []
        defaults = {n: r.choice(default_kinds) for n in dnames}
        try:
            src_i = lp._compile_init(d.names, defaults).co_filename
        except SyntaxError as e:
            bad = [v for v in defaults.values() if isinstance(v, str)] or list(defaults.values())
            ctx.violation("default-render/%s" % kind_of_value(bad[0]),
                          "the generated __init__ for defaults %r does not compile: %s" % (defaults, str(e).split("\n")[0][:100]),
                          {"kind": "default", "names": d.names, "defaults": {n: repr(v) for n, v in defaults.items()}})
            continue
        try:
            src_u = lp._compile_from_unpack_list(cls, d.names).co_filename
            src_p = lp._compile_to_pack_list(cls, d.formats, d.names).co_filename
            params, dflt_txt = parse_init(src_i, d.names)
            uparams, uargs = parse_unpack(src_u)
            pitems = parse_pack(src_p)
        except Unexpected as e:
            ctx.broke("generated source no longer has the modelled shape (%s)" % d.label, str(e))
            continue
        ctx.count(("gen", d.label, tuple(map(str, d.formats)), tuple(dnames)), nontrivial=len(d.names) > 1)
        if params != d.names or uparams != d.names:
            ctx.broke("generated signature differs from names", d.label)
        # (2) rendered defaults evaluate to the defaults
        for n, v in defaults.items():
            try:
                got = eval(dflt_txt[n], {"_defaults": defaults}) if n in dflt_txt else "<no default rendered>"
                same = (got == v and type(got) is type(v))
            except Exception as e:   # noqa
                got, same = "%s: %s" % (type(e).__name__, e), False
            if not same:
                ctx.violation("default-render/%s" % kind_of_value(v),
                              "default %r of a field is rendered as `%s`, which evaluates to %r" % (v, dflt_txt.get(n), got),
                              {"kind": "default", "names": d.names, "defaults": {n: repr(v)}})
        idx = {n: i for i, n in enumerate(d.names)}
        nm = lambda n: idx[n]
        try:
            exp = "([%s], [%s], [%s])" % (
                "; ".join("(%d, %s)" % (nm(p), "Some tt" if p in dflt_txt else "None") for p in params),
                "; ".join("(%d, %s)" % (nm(n), "true" if g else "false") for n, g in uargs),
                "; ".join("(%s, [%s])" % (pname_coq(f, table), "; ".join("(%d, %s)" % (nm(n), "true" if h else "false") for n, h in its))
                          for f, its in pitems))
        except KeyError as e:
            ctx.broke("generated code refers to an unknown name", "%s %s" % (d.label, e))
            continue
        case = "(mkDefn [%s] [%s] [%s] [%s], [%s])" % (
            "; ".join(d.tags(table)), "; ".join(str(i) for i in range(len(d.names))),
            "; ".join(str(nm(n)) for n in d.names if hasattr(cls, "fix_pack_" + n)),
            "; ".join(str(nm(n)) for n in d.names if hasattr(cls, "fix_unpack_" + n)),
            "; ".join(str(nm(n)) for n in dnames))
        gcases.append((case, exp))
        gmeta.append({"label": d.label, "formats": [str(f) for f in d.formats], "names": d.names, "defaults": dnames})
        if len(ctx.coverage["samples"]) < 3:
            ctx.sample({"definition": gmeta[-1], "generated_to_pack_list": src_p.strip()[:300]})
    mism, errs = coqrun.eval_mismatches(IMPORTS, "run_gen", "gen_out_eqb", gcases, os.path.join(ctx.scratch, "gen"),
                                        ctype="gen_case * gen_out", shard=200, jobs=12)
    for e in errs:
        ctx.broke("model evaluation failed (gen)", e)
    for i in mism[:8]:
        ctx.broke("correspondence: model generator and real generator differ", json.dumps(gmeta[i])[:800])
    ctx.coverage["traces_validated_against_impl"] += len(gcases) - len(mism)

    # ---- behavioural oracle: plain vs compiled vs dataclass
    ninst = 6 if ctx.quick else 30
    for d, shipped_cls in defs:
        try:
            P = d.build_plain(False)
            if shipped_cls is None and d.hooks:
                # a sibling of the same shape (names, formats) without hooks is compiled first in this process: what one
                # definition compiles to must not depend on what else has been compiled
                Defn(d.formats, d.names, {}, {}, d.label + "/sibling").build_plain(True)
            C = d.build_plain(True)
        except Exception as e:   # noqa
            ctx.violation("vp_compile-fails", "%s: %s" % (type(e).__name__, e), {"kind": "defn", "formats": [str(f) for f in d.formats]})
            continue
        fmts = wire.class_fmts(P, reg)
        # dataclass form: every format expressed through type_from_format / nested class / List[class]
        D = None
        if "bits" not in d.formats and not d.hooks:
            ann = {}
            for n, f in zip(d.names, d.formats):
                ann[n] = type_from_format(f) if isinstance(f, str) else (typing.List[f[0]] if isinstance(f, list) else f)
            try:
                D = dataclasses.dataclass(type("GenD", (DataClassPayload,), {"__annotations__": ann, "__module__": __name__}))
            except Exception as e:   # noqa
                ctx.violation("dataclass-fails", "%s: %s" % (type(e).__name__, e), {"kind": "defn", "formats": [str(f) for f in d.formats]})
        for _ in range(ninst):
            args = []
            for f in fmts:
                v = wire.gen_value(r, f, keys, 1, gen_class)
                if f[0] == "bits":
                    args.extend(v)
                else:
                    args.append(v)
            # hooked fields: the constructor argument is the field value whose wire value was generated (often falsy: 0, b"")
            for j, n in enumerate(d.names):
                hk = getattr(d, "hook_kinds", {}).get(n)
                if hk:
                    w = args[j] if r.random() < 0.6 else (0 if hk == "int" else b"")
                    args[j] = HOOKS[hk][2](w)
            case = {"kind": "behaviour", "formats": [str(f) for f in d.formats], "names": d.names, "args": repr(args)[:600],
                    "hooks": sorted(d.hooks)}
            ctx.count(("beh", d.label, repr(args)[:300]), nontrivial=True)
            try:
                p = P(*args)
                bp = ser.pack_serializable(p)
            except Exception as e:   # noqa
                continue   # not a legal instance of the plain definition (e.g. nested too large)
            forms = [("compiled", C)] + ([("dataclass", D)] if D is not None else [])
            for label, K in forms:
                try:
                    k = K(*args)
                    bk = ser.pack_serializable(k)
                    if bk != bp:
                        ctx.violation("%s/bytes-differ" % label, "%s form encodes differently from the plain definition" % label, case)
                    p2, _ = ser.unpack_serializable(P, bp)
                    k2, _ = ser.unpack_serializable(K, bp)
                    if c02.fields(p2) != c02.fields(k2):
                        ctx.violation("%s/decoded-fields-differ" % label, "%s form decodes to different fields" % label, case)
                    # keyword construction
                    kw = K(**dict(zip(d.names, args)))
                    if ser.pack_serializable(kw) != bp:
                        ctx.violation("%s/keyword-construction" % label, "keyword construction differs", case)
                    # mixed construction (compiled_init_equals_interpreted_mixed): a positional prefix, the rest by keyword in
                    # reverse order; calls the plain form rejects (a field given twice, an unknown keyword) are rejected too
                    if label == "compiled" and len(d.names) >= 2:
                        # split points anywhere, also strictly inside a group of eight bits names
                        ks = {r.randrange(1, len(d.names))}
                        pos = 0
                        for f in d.formats:
                            if f == "bits":
                                ks.add(pos + r.randrange(1, 8))
                            pos += 8 if f == "bits" else 1
                        for k in sorted(x for x in ks if 0 < x < len(d.names)):
                            rest = list(zip(d.names[k:], args[k:]))[::-1]
                            calls = [("the rest by keyword", dict(rest), True), ("a field given twice", dict(rest + [(d.names[0], args[0])]), False),
                                     ("an unknown keyword", dict(rest + [("no_such_field", 1)]), False), ("a field missing", dict(rest[1:]), False)]
                            for what, kwd, legal in calls:
                                outcome = []
                                for form in (P, K):
                                    try:
                                        outcome.append(ser.pack_serializable(form(*args[:k], **kwd)))
                                    except (KeyError, TypeError, IndexError, PackError, AttributeError) as e:
                                        outcome.append("rejected (%s)" % type(e).__name__)
                                same = outcome[0] == outcome[1] or (isinstance(outcome[0], str) and isinstance(outcome[1], str))
                                if legal and outcome[0] != bp:
                                    ctx.violation("plain/mixed-construction", "plain form: %d positional arguments and %s gives %s, all-positional "
                                                  "construction gives other bytes" % (k, what, outcome[0] if isinstance(outcome[0], str) else "bytes"), case)
                                if not same:
                                    ctx.violation("compiled/mixed-construction", "%d positional arguments and %s: plain %s, compiled %s" % (
                                        k, what, outcome[0] if isinstance(outcome[0], str) else "accepts", outcome[1] if isinstance(outcome[1], str) else "accepts"), case)
                except Exception as e:   # noqa
                    ctx.violation("%s/raises" % label, "%s form raises %s: %s" % (label, type(e).__name__, str(e)[:100]), case)
    # ---- siblings: the hook-less definition of the same shape compiled AFTER a hooked one still behaves like its plain form
    for d, shipped_cls in defs:
        if shipped_cls is not None or not d.hooks:
            continue
        d0 = Defn(d.formats, d.names, {}, {}, d.label + "/sibling")
        try:
            d.build_plain(True)
            P0, C0 = d0.build_plain(False), d0.build_plain(True)
        except Exception as e:   # noqa
            ctx.violation("vp_compile-fails", "%s: %s" % (type(e).__name__, e), {"kind": "defn", "formats": [str(f) for f in d.formats]})
            continue
        fmts = wire.class_fmts(P0, reg)
        for _ in range(2):
            args = []
            for f in fmts:
                v = wire.gen_value(r, f, keys, 1, gen_class)
                args.extend(v) if f[0] == "bits" else args.append(v)
            case = {"kind": "sibling", "formats": [str(f) for f in d.formats], "names": d.names, "args": repr(args)[:600],
                    "hooks_of_the_definition_compiled_before": sorted(d.hooks)}
            ctx.count(("sib", d.label, repr(args)[:300]), nontrivial=True)
            try:
                bp = ser.pack_serializable(P0(*args))
            except Exception:   # noqa
                continue
            try:
                if ser.pack_serializable(C0(*args)) != bp:
                    ctx.violation("compiled/bytes-differ", "compiled form of a hook-less definition encodes differently after a hooked "
                                  "definition of the same shape was compiled", case)
                elif c02.fields(ser.unpack_serializable(C0, bp)[0]) != c02.fields(ser.unpack_serializable(P0, bp)[0]):
                    ctx.violation("compiled/decoded-fields-differ", "compiled form of a hook-less definition decodes differently after a "
                                  "hooked definition of the same shape was compiled", case)
            except Exception as e:   # noqa
                ctx.violation("compiled/raises", "compiled form of a hook-less definition raises %s: %s after a hooked definition of "
                              "the same shape was compiled" % (type(e).__name__, str(e)[:100]), case)
    # ---- defaults: omitted arguments take the declared default of *their own* field in every form
    ndefcase = 0
    for d, shipped_cls in defs:
        if shipped_cls is not None or "bits" in d.formats or d.hooks or len(d.names) < 2:
            continue
        fmts = wire.class_fmts(d.build_plain(False), reg)
        for rep in range(2 if ctx.quick else 6):
            ndef = r.randrange(1, len(d.names) + 1)
            full = [wire.gen_value(r, f, keys, 1, gen_class) for f in fmts]
            dvals = [wire.gen_value(r, f, keys, 1, gen_class) for f in fmts]
            defaults = {n: dvals[j] for j, n in enumerate(d.names) if j >= len(d.names) - ndef}
            try:
                P, C = d.build_defaults(defaults, False), d.build_defaults(defaults, True)
            except Exception as e:   # noqa
                ctx.violation("vp_compile-fails", "%s: %s" % (type(e).__name__, e),
                              {"kind": "defaults", "formats": [str(f) for f in d.formats], "defaults": repr(defaults)[:400]})
                continue
            D = None
            if all(isinstance(v, (int, float, bytes, str, tuple)) for v in defaults.values()):
                ann = {}
                for n, f in zip(d.names, d.formats):
                    ann[n] = type_from_format(f) if isinstance(f, str) else (typing.List[f[0]] if isinstance(f, list) else f)
                try:
                    D = dataclasses.dataclass(type("GenDF", (DataClassPayload,), {"__annotations__": ann, "__module__": __name__, **defaults}))
                except Exception as e:   # noqa
                    ctx.violation("dataclass-fails", "%s: %s" % (type(e).__name__, e),
                                  {"kind": "defaults", "formats": [str(f) for f in d.formats], "defaults": repr(defaults)[:400]})
            for m in sorted({1, ndef, r.randrange(1, ndef + 1)}):
                given = full[:len(d.names) - m]
                omit_kw = set(r.sample(list(defaults), m))
                kw = {n: v for n, v in zip(d.names, full) if n not in omit_kw}
                case = {"kind": "defaults", "formats": [str(f) for f in d.formats], "names": d.names,
                        "defaults": repr(defaults)[:500], "positional": repr(given)[:400], "omitted_by_keyword": sorted(omit_kw)}
                ndefcase += 1
                ctx.count(("dflt", d.label, repr(defaults)[:200], m, tuple(sorted(omit_kw))), nontrivial=True)
                for how, mk in (("positional", lambda K: K(*given)), ("keyword", lambda K: K(**kw))):
                    try:
                        p = mk(P)
                    except Exception:   # noqa
                        continue
                    fp = c02.fields(p)
                    try:
                        bp = ser.pack_serializable(p)
                    except Exception:   # noqa
                        bp = None
                    for label, K in [("compiled", C)] + ([("dataclass", D)] if D is not None else []):
                        for alloc in range(2):      # the dataclass form regenerates its constructor on allocation
                            try:
                                k = mk(K)
                                if c02.fields(k) != fp:
                                    ctx.violation("%s/default-differs" % label,
                                                  "%s form, %s construction with omitted arguments: fields %s, the plain definition gives %s" % (
                                                      label, how, repr(c02.fields(k))[:200], repr(fp)[:200]), case)
                                    break
                                if bp is not None and ser.pack_serializable(k) != bp:
                                    ctx.violation("%s/default-bytes-differ" % label, "%s form with defaulted fields encodes differently" % label, case)
                                    break
                                if bp is not None:
                                    ser.unpack_serializable(K, bp)
                            except Exception as e:   # noqa
                                ctx.violation("%s/default-raises" % label, "%s form, %s construction with omitted arguments raises %s: %s" % (
                                    label, how, type(e).__name__, str(e)[:100]), case)
                                break
    ctx.extra["default_cases"] = ndefcase

    # dataclass with defaults of every literal kind
    for v in default_kinds:
        if isinstance(v, (list, tuple)):
            continue
        fmt = {"bool": "?", "int": "q", "bytes": "varlenH", "str": "varlenHutf8"}.get(kind_of_value(v))
        if isinstance(v, float):
            fmt = "d"
        if v is None or fmt is None:
            continue
        case = {"kind": "dataclass-default", "default": repr(v)}
        ctx.count(("dcd", repr(v)), nontrivial=True)
        try:
            ns = {"__annotations__": {"a": int, "b": type_from_format(fmt)}, "b": v, "__module__": __name__}
            D = dataclasses.dataclass(type("GenDD", (DataClassPayload,), ns))
            inst = D(5)
            if not (inst.b == v and type(inst.b) is type(v)):
                ctx.violation("default-render/%s" % kind_of_value(v), "dataclass default %r arrives as %r" % (v, inst.b), case)
            plain = type("GenPD", (VariablePayload,), {"format_list": ["q", fmt], "names": ["a", "b"]})(5, v)
            if ser.pack_serializable(inst) != ser.pack_serializable(plain):
                ctx.violation("dataclass/bytes-differ", "dataclass with default %r encodes differently" % (v,), case)
        except Exception as e:   # noqa
            ctx.violation("default-render/%s" % kind_of_value(v),
                          "dataclass payload with default %r cannot be used: %s: %s" % (v, type(e).__name__, str(e)[:100]), case)

    # ---- type_map
    from ipv8.messaging.serialization import Serializable
    base = [("TBool", bool), ("TInt", int), ("TFloat", float), ("TBytes", bytes), ("TStr", str),
            ("TVar 7", type_from_format("I")), ("TClass 3", pool[0]), ("TOther", dict)]
    tys = list(base)
    for c, t in base:
        for wrap in (typing.List, typing.Set):
            tys.append(("TSeq (%s)" % c, wrap[t]))
    for c, t in base[:3]:
        tys.append(("TSeq (TSeq (%s))" % c, typing.List[typing.List[t]]))
    tcases = []
    ftab = {"q": "TFq", "?": "TFbool", "d": "TFd", "varlenH": "TFvarlenH", "varlenHutf8": "TFvarlenHutf8", "I": "TFname 7"}

    def tf(x):
        if isinstance(x, str):
            if x.startswith("arrayH-"):
                return "TFarray (%s)" % tf(x[7:])
            if x.startswith("["):
                return "<list repr>"
            return ftab.get(x, "TFname 99")
        if isinstance(x, list):
            return "TFpayloadlist 3"
        if isinstance(x, type) and issubclass(x, Serializable):
            return "TFpayload 3"
        return "<unknown %r>" % (x,)
    for c, t in tys:
        try:
            got = "Ok (%s)" % tf(type_map(t))
        except NotImplementedError:
            got = "Raise RuntimeError"
        except TypeError:
            got = "Raise TypeError"
        tcases.append((c, got))
        ctx.count(("ty", c), nontrivial=True)
    mism, errs = coqrun.eval_mismatches(IMPORTS, "type_map", "res_eqb tfmt_eqb", tcases, os.path.join(ctx.scratch, "ty"),
                                        ctype="ty * res tfmt")
    for e in errs:
        ctx.broke("model evaluation failed (type_map)", e)
    for i in mism:
        ctx.broke("correspondence: type_map differs", "%s -> impl %s" % tcases[i])
    ctx.coverage["traces_validated_against_impl"] += len(tcases) - len(mism)
    ctx.extra["definitions"] = len(defs)
    c20_vp_gen.stage(ctx, xtext)
    ctx.coverage["rule"] = ("every shipped VariablePayload definition + generated definitions (1..8 formats over all registered formats, bits "
                            "anywhere, nested payloads, lists, hooks on byte fields, defaults of every literal kind on a suffix); per "
                            "definition generated instances; distinct by (definition, arguments)")


def replay(path):
    js = json.load(open(path))
    rc = 0
    from ipv8.messaging import lazy_payload as lp
    for v in js.get("violations", []):
        print(v["key"], "::", v["what"])
        c = v["case"]
        if c.get("kind") in ("dataclass-default-factory", "int-instance", "dataclass-defaults", "dataclass"):
            from tools.checks import c20_vp_gen
            rc |= c20_vp_gen.replay_case(v)
        elif c.get("kind") == "default":
            for n, rv in c["defaults"].items():
                val = eval(rv)
                src = lp._compile_init(c["names"], {n: val}).co_filename
                print("  generated:", src.strip().split("\n")[0])
                try:
                    ns = {}
                    exec(compile(src, "<gen>", "exec"), {"Payload": type("P", (), {"__init__": lambda s: None})}, ns)
                    print("  compiles")
                except Exception as e:   # noqa
                    print("  exec raises", type(e).__name__, e)
                    rc = 1
        else:
            rc = 1
    for b in js.get("no_longer_checks", []):
        print("no longer checks:", b["what"], b["detail"][:300])
        rc = 1
    return rc
