"""Run every translator against $VERIF_REPO (used by setup; each check also runs its own)."""
import importlib
import sys
import traceback

# (label, module, function): modules are imported lazily so that one broken translator cannot stop the others
ALL = [("G06_datachecker", "tools.tr.tr_datachecker", "write"),
       ("G06_exit", "tools.tr.tr_exit", "write"),
       ("G02_registry", "tools.tr.tr_wire", "write"),
       ("G02_oldstyle", "tools.tr.tr_oldstyle", "write"),
       ("G02_packers", "tools.tr.tr_packers", "write"),
       ("G01_handlers", "tools.tr.tr_handlers", "write"),
       ("G01_auth", "tools.tr.tr_auth", "write"),
       ("G03_recv", "tools.tr.tr_recv", "write"),
       ("G09_rules", "tools.tr.tr_reclaim", "write"),
       ("G13_lan", "tools.tr.tr_lan", "write"),
       ("G13_introduction", "tools.tr.tr_introduction", "write"),
       ("G15_consts", "tools.tr.tr_dht_consts", "write"),
       ("G15_handlers", "tools.tr.tr_dht_handlers", "write"),
       ("G19_db", "tools.tr.tr_db", "write"),
       ("G19x_upgrade", "tools.tr.tr_db", "write_upgrade"),
       ("G07_consts", "tools.tr.tr_tunnel_ep", "write"),
       ("G07_tunnel_ep", "tools.tr.tr_tunnel_ep", "write_gen"),
       ("G11_api+unload", "tools.tr.tr_lifecycle", "write"),
       ("G11_taskmanager", "tools.tr.tr_taskmanager", "write"),
       ("G18_fp2", "tools.tr.tr_value", "write"),
       ("G18_proofs", "tools.tr.tr_proofs", "write"),
       ("G10_reqcache", "tools.tr.tr_reqcache", "write"),
       ("G14_routing", "tools.tr.tr_routing", "write"),
       ("G16_tokentree", "tools.tr.tr_tokentree", "write"),
       ("G17_consent", "tools.tr.tr_consent", "write"),
       ("G20_vp", "tools.tr.tr_vp", "write"),
       ("G12_network", "tools.tr.tr_network", "write"),
       ("G08_handshake", "tools.tr.tr_handshake", "write"),
       ("G04_onion", "tools.tr.tr_onion", "write")]


def main():
    import logging
    logging.disable(logging.CRITICAL)
    rc = 0
    for name, mod, fn in ALL:
        try:
            getattr(importlib.import_module(mod), fn)()
        except Exception:
            traceback.print_exc()
            print("translator %s aborted" % name)
            rc = 1
    return rc


if __name__ == "__main__":
    sys.exit(main())
