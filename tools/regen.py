"""Run every translator against /repo (used by setup; each check also runs its own)."""
import sys
import traceback

from tools.tr import tr_datachecker, tr_handlers, tr_wire

ALL = [("G06_datachecker", tr_datachecker.write), ("G02_registry", tr_wire.write), ("G01_handlers", tr_handlers.write)]


def main():
    rc = 0
    for name, fn in ALL:
        try:
            fn()
        except Exception:
            traceback.print_exc()
            print("translator %s aborted" % name)
            rc = 1
    return rc


if __name__ == "__main__":
    sys.exit(main())
