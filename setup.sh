#!/bin/bash
# Offline build of the framework: regenerate translated models from /repo, full .vo build of the Coq development.
cd "$(dirname "$0")"
export PYTHONHASHSEED=0 PYTHONPATH=/verif:/repo IPV8_VERIF=1 PYTHONDONTWRITEBYTECODE=1
mkdir -p coq/gen; /venv/bin/python -m tools.regen || echo "warning: a translator aborted; the affected checks will report it"
mkdir -p coq/gen; cd coq
coq_makefile -f _CoqProject $(find lib model gen spec proofs props -name '*.v' | sort) -o Makefile > /dev/null || exit 1
rm -f .vfiles
mkdir -p ../replay
timeout 3000 make -k -j16 > ../replay/setup.log 2>&1 || { echo "warning: some Coq files did not build (see replay/setup.log):"; grep -B2 -A12 '^Error' ../replay/setup.log | tail -40; }
test -f lib/PyErr.vo || { echo "setup failed: core library did not build"; exit 1; }
echo "setup ok"
