#!/bin/bash
# Offline build of the framework: regenerate translated models from /repo, full .vo build of the Coq development.
set -e
cd "$(dirname "$0")"
export PYTHONHASHSEED=0 PYTHONPATH=/verif:/repo IPV8_VERIF=1 PYTHONDONTWRITEBYTECODE=1
/venv/bin/python -m tools.regen
cd coq
coq_makefile -f _CoqProject $(find lib model gen spec proofs props -name '*.v' | sort) -o Makefile > /dev/null
find lib model gen spec proofs props -name '*.v' | sort | sed 's#^\./##' | tr '\n' '\n' | sed '$!{:a;N;$!ba}' > /dev/null
rm -f .vfiles
timeout 3000 make -j16 > /tmp/verif-setup.log 2>&1 || { tail -50 /tmp/verif-setup.log; exit 1; }
echo "setup ok"
