#!/bin/bash
# Full pass: every check claimed in MANIFEST.json, sequentially, on /repo's working tree.  Usage: ./run_all.sh [quick|thorough]
cd "$(dirname "$0")"
tier=${1:-quick}
rc=0
for id in $(python3 -c "import json; print(' '.join(c['property_id'] for c in json.load(open('MANIFEST.json'))['checks']))"); do
  start=$(date +%s)
  out=$(./check $id --tier $tier 2>&1); r=$?
  echo "$out" | grep -E "^(VIOLATION|KNOWN-FINDING|OK|FAIL)" | cut -c1-220
  [ $r -ne 0 ] && rc=1
done
exit $rc
